"""Check framework: seeded case fan-out over 16 cores, violation handling (minimise, replay file,
known findings), evidence writing, exit codes (0 held / 1 VIOLATION / 2 infrastructure)."""
import concurrent.futures as cf
import hashlib, json, os, sys, time, traceback

import simlib
from simlib import Infra, Rng, subseed

VERIF = simlib.VERIF
# where evidence and replay files go; tools that run the checks against a deliberately broken tree point
# this somewhere else so that /verif/evidence only ever describes runs against /repo as it is
OUT = os.environ.get("VERIF_OUT", VERIF)
NCPU = int(os.environ.get("VERIF_JOBS", "16"))


class Violation:
    def __init__(self, cls, detail, replay):
        self.cls = cls          # violation class (string, stable under minimisation)
        self.detail = detail    # human-readable
        self.replay = replay    # JSON-serialisable replay description (without property/seed header)


class CaseResult:
    def __init__(self):
        self.violations = []    # [Violation]
        self.evals = 0          # simulated runs performed
        self.sigs = []          # signatures of non-trivial distinct cases
        self.stats = {}         # additive counters
        self.sample = None
        self.infra = None
        self.known = []         # known-finding ids hit
        self.pending_known = [] # (finding id, class, detail) tagged by a harness; known only if listed in known-findings.txt
        self.tagged = []        # (finding id, Violation) to report as VIOLATION when the id is NOT listed


def add_stats(dst, src):
    for k, v in src.items():
        if isinstance(v, dict):
            add_stats(dst.setdefault(k, {}), v)
        elif isinstance(v, (int, float)):
            dst[k] = dst.get(k, 0) + v


def load_known(pid):
    """known-findings.txt lines: `known: property=Cxx id=<finding id> <text>` / `fixed: property=Cxx <commit> <text>`"""
    res = {}
    p = os.path.join(VERIF, "known-findings.txt")
    if os.path.exists(p):
        for l in open(p):
            l = l.strip()
            if l.startswith("known:") and ("property=%s " % pid) in l:
                parts = l.split()
                fid = [x for x in parts if x.startswith("id=")]
                if fid:
                    res[fid[0][3:]] = l
    return res


def _worker(args):
    modname, fn, bindir, case_seed, index, tier, extra = args
    try:
        mod = __import__(modname)
        r = getattr(mod, fn)(bindir, case_seed, index, tier, extra)
        return r
    except Infra as e:
        r = CaseResult()
        r.infra = str(e)
        return r
    except Exception:
        r = CaseResult()
        r.infra = "exception in case %d seed %d:\n%s" % (index, case_seed, traceback.format_exc())
        return r


def _corpus_worker(args):
    modname, replay_fn, bindir, path = args
    try:
        rp = json.load(open(path))
        mod = __import__(modname)
        return (path, getattr(mod, replay_fn)(bindir, rp), None)
    except Infra as e:
        return (path, [], str(e))
    except Exception:
        return (path, [], "exception replaying %s:\n%s" % (path, traceback.format_exc()))


def run_corpus(pid, modname, replay_fn, bindir, jobs, known_classes):
    """Replays every file of corpus/<pid>/ (recorded failing cases of earlier, since repaired or deliberately
    seeded, defects) against the current tree. Returns (count, [(path, cls, detail)], [infra], known hits)."""
    d = os.path.join(VERIF, "corpus", pid)
    files = sorted(os.path.join(d, f) for f in os.listdir(d) if f.endswith(".json")) if os.path.isdir(d) else []
    if not files or not replay_fn or os.environ.get("VERIF_NO_CORPUS"):
        return 0, [], [], {}
    bad, infra, hits = [], [], {}
    with cf.ProcessPoolExecutor(max_workers=jobs) as ex:
        for (path, vs, err) in ex.map(_corpus_worker, [(modname, replay_fn, bindir, f) for f in files]):
            if err:
                infra.append(err)
            for (cls, detail) in vs:
                if cls in known_classes:
                    hits[known_classes[cls]] = hits.get(known_classes[cls], 0) + 1
                else:
                    bad.append((path, cls, detail))
    return len(files), bad, infra, hits


def run_check(pid, modname, fn, bindir, n_cases, tier, level, rule, assumptions, components, extra=None,
              budget_s=None, replay_fn=None, jobs=None, known_class_map=None):
    """Runs n_cases seeded cases in parallel; writes evidence; prints verdict lines; returns exit code."""
    seed = int(os.environ.get("VERIF_SEED", "1"))
    t0 = time.time()
    known = load_known(pid)
    known_classes = {c: f for c, f in (known_class_map or {}).items() if f in known}
    ncorpus, corpus_bad, corpus_infra, corpus_hits = run_corpus(pid, modname, replay_fn, bindir, jobs or NCPU, known_classes)
    if ncorpus:
        print("corpus %s: %d recorded cases replayed, %d violating" % (pid, ncorpus, len(corpus_bad)), flush=True)
    total = CaseResult()
    sigs = set()
    samples = []
    violations = []
    infra = []
    known_hit = {}
    jobs = jobs or NCPU
    print("check %s tier=%s seed=%d cases=%d jobs=%d" % (pid, tier, seed, n_cases, jobs), flush=True)
    work = [(modname, fn, bindir, subseed(seed, "%s/case/%d" % (pid, i)), i, tier, extra) for i in range(n_cases)]
    done = 0
    with cf.ProcessPoolExecutor(max_workers=jobs) as ex:
        futs = {}
        it = iter(work)
        # bounded submission so that a wall budget can stop early
        def submit_next():
            try:
                w = next(it)
            except StopIteration:
                return False
            futs[ex.submit(_worker, w)] = w
            return True
        for _ in range(jobs * 2):
            if not submit_next():
                break
        while futs:
            for f in cf.as_completed(list(futs)):
                w = futs.pop(f)
                r = f.result()
                done += 1
                if r.infra:
                    infra.append(r.infra)
                total.evals += r.evals
                add_stats(total.stats, r.stats)
                for s in r.sigs:
                    sigs.add(s)
                if r.sample is not None and len(samples) < 3:
                    samples.append(r.sample)
                for v in r.violations:
                    violations.append((w, v))
                for k in r.known:
                    known_hit[k] = known_hit.get(k, 0) + 1
                for (fid, cls, detail) in r.pending_known:
                    if fid in known:
                        known_hit[fid] = known_hit.get(fid, 0) + 1
                for (fid, v) in r.tagged:
                    if fid not in known:
                        violations.append((w, v))
                if budget_s and time.time() - t0 > budget_s:
                    it = iter(())
                if len(violations) >= 3 or len(infra) >= 3:
                    it = iter(())
                submit_next()
                break
    wall = time.time() - t0
    # verdicts
    code = 0
    reported = 0
    infra = corpus_infra + infra
    for k, n in corpus_hits.items():
        known_hit[k] = known_hit.get(k, 0) + n
    for (path, cls, detail) in corpus_bad[:3]:
        print("violation class=%s detail=%s" % (cls, detail[:2000]))
        print("VIOLATION property=%s replay=%s" % (pid, path), flush=True)
        reported += 1
        code = 1
    os.makedirs(os.path.join(OUT, "replays", pid), exist_ok=True)
    seen_cls = set()
    for (w, v) in violations:
        if v.cls in seen_cls:
            continue
        seen_cls.add(v.cls)
        rp = {"property": pid, "seed": seed, "case_seed": w[3], "index": w[4], "tier": tier,
              "violation": {"class": v.cls, "detail": v.detail}}
        rp.update(v.replay or {})
        path = os.path.join(OUT, "replays", pid, "%d-%d.json" % (seed, w[4]))
        with open(path, "w") as f:
            json.dump(rp, f, indent=1)
        print("violation class=%s detail=%s" % (v.cls, v.detail[:2000]))
        print("VIOLATION property=%s replay=%s" % (pid, path), flush=True)
        reported += 1
        code = 1
    for k in sorted(known_hit):
        text = known.get(k, k)
        text = text.split("id=%s" % k, 1)[-1].strip() if ("id=%s" % k) in text else text
        print("KNOWN-FINDING: property=%s id=%s %s (reproduced %d time(s) this run)" % (pid, k, text, known_hit[k]))
    for msg in infra[:3]:
        print("INFRA: %s" % msg, file=sys.stderr)
    if infra and code == 0:
        code = 2
    cov = {
        "evaluations": total.evals,
        "distinct_nontrivial": len(sigs),
        "rule": rule,
        "samples": samples or [{"note": "no sample recorded"}],
        "cases": done,
        "runs_per_hour": int(total.evals / wall * 3600) if wall > 0 else 0,
        "seeds": done,
        "components": components,
        "known_findings_reproduced": known_hit,
        "corpus_cases_replayed": ncorpus,
    }
    for k, v in total.stats.items():
        cov[k] = v
    ev = {"property_id": pid, "tier": tier, "seed": seed, "level": level, "coverage": cov,
          "assumptions": assumptions, "wall_s": round(wall, 2), "violations": reported}
    os.makedirs(os.path.join(OUT, "evidence"), exist_ok=True)
    with open(os.path.join(OUT, "evidence", pid + ".json"), "w") as f:
        json.dump(ev, f, indent=1, sort_keys=True)
    print("check %s: cases=%d evaluations=%d distinct_nontrivial=%d violations=%d infra=%d wall=%.1fs exit=%d" % (
        pid, done, total.evals, len(sigs), reported, len(infra), wall, code), flush=True)
    return code


def sig(*parts):
    return hashlib.sha256(json.dumps(parts, sort_keys=True, default=str).encode()).hexdigest()[:16]
