"""Core orchestration: building the instrumented binaries, running one simulated plz invocation,
parsing traces, seeds. Python 3 stdlib only. No randomness here except through Rng(seed)."""
import hashlib, json, os, shutil, signal, subprocess, sys, time

VERIF = os.path.dirname(os.path.dirname(os.path.abspath(__file__)))
REPO = os.environ.get("VERIF_REPO", "/repo")
STOCK_GOROOT = "/root/go/pkg/mod/golang.org/toolchain@v0.0.1-go1.26.1.linux-amd64"
STOCK_GO = STOCK_GOROOT + "/bin/go"
BUILD_ROOT = os.path.join(VERIF, ".build")
SHM = "/dev/shm"

EXIT_HANG, EXIT_DIVERGENCE, EXIT_INTERNAL = 97, 96, 98

GOENV = dict(os.environ, GOTOOLCHAIN="local", GOFLAGS="-mod=mod", GOPROXY="off", GOSUMDB="off")


class Infra(Exception):
    """Infrastructure trouble: build failure, simulator wedge, divergence. Exit code 2, never a verdict."""


# ------------------------------------------------------------------------------------------------
# PRNG: splitmix64, identical to verifsim.Rand

MASK = (1 << 64) - 1


class Rng:
    def __init__(self, seed):
        self.s = seed & MASK

    def u64(self):
        self.s = (self.s + 0x9E3779B97F4A7C15) & MASK
        z = self.s
        z = ((z ^ (z >> 30)) * 0xBF58476D1CE4E5B9) & MASK
        z = ((z ^ (z >> 27)) * 0x94D049BB133111EB) & MASK
        return z ^ (z >> 31)

    def intn(self, n):
        return 0 if n <= 1 else self.u64() % n

    def rng(self, lo, hi):
        """inclusive range"""
        return lo + self.intn(hi - lo + 1)

    def chance(self, p):
        return (self.u64() >> 11) / float(1 << 53) < p

    def choice(self, seq):
        return seq[self.intn(len(seq))]

    def shuffle(self, seq):
        for i in range(len(seq) - 1, 0, -1):
            j = self.intn(i + 1)
            seq[i], seq[j] = seq[j], seq[i]

    def sample(self, seq, k):
        s = list(seq)
        self.shuffle(s)
        return s[:k]


def subseed(seed, name):
    h = 14695981039346656037
    for b in name.encode():
        h ^= b
        h = (h * 1099511628211) & MASK
    return Rng((seed ^ h) & MASK).u64()


# ------------------------------------------------------------------------------------------------
# Build

INSTR_PKGS = ["src", "src/core", "src/cmap", "src/plz", "src/parse", "src/parse/asp", "src/output",
              "src/build", "src/test", "src/cache", "src/fs", "src/clean"]

BINARIES = {"simplz": "./src", "cache": "./src/cache", "cmap": "./src/cmap", "core": "./src/core"}


def _digest_tree():
    h = hashlib.sha256()
    roots = [os.path.join(REPO, "src"), os.path.join(REPO, "rules"), os.path.join(VERIF, "tools", "instr"), os.path.join(VERIF, "sim")]
    files = [os.path.join(REPO, "go.mod"), os.path.join(REPO, "go.sum")]
    for r in roots:
        for dp, dn, fn in os.walk(r):
            dn.sort()
            if "plz-out" in dn:
                dn.remove("plz-out")
            for f in sorted(fn):
                if f.endswith((".go", ".mod", ".sum", "TARGET", ".build_defs", ".plz", ".sh", ".json")) or "/rules" in dp:
                    files.append(os.path.join(dp, f))
    for f in files:
        try:
            with open(f, "rb") as fh:
                h.update(f.encode() + b"\0" + fh.read() + b"\0")
        except OSError:
            pass
    h.update(SELECT_PATCH.encode())
    return h.hexdigest()[:20]


SELECT_NEEDLE = "j := cheaprandn(uint32(norder + 1))"
SELECT_PATCH = ("var j uint32; if s := VerifSelectSeed; s != 0 { x := s + uint64(norder)*0x9e3779b97f4a7c15 + uint64(len(scases)); "
                "x ^= x >> 31; x *= 0xbf58476d1ce4e5b9; x ^= x >> 29; j = uint32(x % uint64(norder+1)) } else { j = cheaprandn(uint32(norder + 1)) }")


def sim_go():
    """The go command used for instrumented builds: a private copy of the repository's toolchain whose
    runtime picks among several ready `select` cases from a seed published by the simulator
    (runtime.VerifSelectSeed) instead of at random. (The toolchain lives in the module cache, where
    `-overlay` refuses to replace files, hence a copy.) The shipped program is never built with it."""
    root = os.path.join(BUILD_ROOT, "goroot-sim")
    gobin = os.path.join(root, "bin", "go")
    marker = os.path.join(root, ".verif-patched")
    if os.path.exists(marker):
        return gobin
    os.makedirs(BUILD_ROOT, exist_ok=True)
    tmp = root + ".tmp%d" % os.getpid()
    shutil.rmtree(tmp, ignore_errors=True)
    p = subprocess.run(["cp", "-a", STOCK_GOROOT, tmp], stdout=subprocess.PIPE, stderr=subprocess.STDOUT, text=True)
    if p.returncode != 0:
        raise Infra("cannot copy the Go toolchain: %s" % p.stdout[-1000:])
    subprocess.run(["chmod", "-R", "u+w", tmp])
    sel = os.path.join(tmp, "src", "runtime", "select.go")
    src = open(sel).read()
    if src.count(SELECT_NEEDLE) != 1:
        raise Infra("runtime/select.go does not look as expected; cannot make select choices deterministic")
    src = src.replace(SELECT_NEEDLE, SELECT_PATCH) + "\n// VerifSelectSeed, when non-zero, replaces the random poll order of select (deterministic simulation).\nvar VerifSelectSeed uint64\n"
    with open(sel, "w") as f:
        f.write(src)
    open(os.path.join(tmp, ".verif-patched"), "w").close()
    shutil.rmtree(root, ignore_errors=True)
    os.rename(tmp, root)
    return gobin


def build(which=("simplz",), verbose=True):
    """Instruments the CURRENT /repo tree and builds the requested harness binaries. Returns dir."""
    dg = _digest_tree()
    out = os.path.join(BUILD_ROOT, dg)
    os.makedirs(out, exist_ok=True)
    lock = open(os.path.join(BUILD_ROOT, ".lock"), "w")
    import fcntl
    fcntl.flock(lock, fcntl.LOCK_EX)
    try:
        GO = sim_go()
        instr = os.path.join(BUILD_ROOT, "instr")
        srcs = [os.path.join(VERIF, "tools/instr/main.go")]
        if not os.path.exists(instr) or os.path.getmtime(instr) < max(os.path.getmtime(s) for s in srcs):
            _run([STOCK_GO, "build", "-o", instr, "."], cwd=os.path.join(VERIF, "tools/instr"), what="build instr")
        if not os.path.exists(os.path.join(out, "overlay.json")):
            _run([instr, "-repo", REPO, "-out", out, "-sim", os.path.join(VERIF, "sim"), "-go", GO], cwd=VERIF, what="instrument")
        for name in which:
            binp = os.path.join(out, name + ".test")
            if os.path.exists(binp):
                continue
            t0 = time.time()
            _run([GO, "test", "-c", "-tags", "verif", "-vet=off", "-overlay", os.path.join(out, "overlay.json"),
                  "-o", binp + ".tmp", BINARIES[name]], cwd=REPO, what="build " + name)
            os.rename(binp + ".tmp", binp)
            if verbose:
                print("built %s in %.1fs (%s)" % (name, time.time() - t0, dg), file=sys.stderr)
        # prune old builds (keep newest 2)
        ds = [d for d in os.listdir(BUILD_ROOT) if os.path.isdir(os.path.join(BUILD_ROOT, d)) and d != dg]
        ds.sort(key=lambda d: os.path.getmtime(os.path.join(BUILD_ROOT, d)))
        for d in ds[:-1]:
            shutil.rmtree(os.path.join(BUILD_ROOT, d), ignore_errors=True)
        os.utime(out)
    finally:
        fcntl.flock(lock, fcntl.LOCK_UN)
        lock.close()
    return out


def _run(cmd, cwd, what):
    p = subprocess.run(cmd, cwd=cwd, env=GOENV, stdout=subprocess.PIPE, stderr=subprocess.STDOUT, text=True)
    if p.returncode != 0:
        raise Infra("%s failed (exit %d):\n%s" % (what, p.returncode, p.stdout[-6000:]))
    return p.stdout


def build_linchk():
    GO = STOCK_GO
    out = os.path.join(BUILD_ROOT, "linchk")
    src = os.path.join(VERIF, "tools/linchk")
    if not os.path.exists(out) or os.path.getmtime(out) < os.path.getmtime(os.path.join(src, "main.go")):
        _run([GO, "build", "-o", out, "."], cwd=src, what="build linchk")
    return out


# ------------------------------------------------------------------------------------------------
# Running one simulated invocation


class Result:
    __slots__ = ("exit", "stdout", "stderr", "trace_path", "how", "stats", "wall", "killed_at", "sim_fail")

    def choices(self):
        return [int(l.split()[2]) for l in self.trace_lines() if l.startswith("C ")]

    def stalls(self):
        return [[int(l.split()[1]), int(l.split()[2])] for l in self.trace_lines() if l.startswith("J ")]

    def trace_lines(self):
        try:
            with open(self.trace_path) as f:
                return f.read().splitlines()
        except OSError:
            return []

    def trace_digest(self):
        try:
            with open(self.trace_path, "rb") as f:
                return hashlib.sha256(f.read()).hexdigest()[:16]
        except OSError:
            return "none"

    def fsops(self):
        return [l.split(None, 4) for l in self.trace_lines() if l.startswith("F ")]


def base_env(home, extra=None):
    env = {"HOME": home, "PATH": "/usr/local/bin:/usr/bin:/bin", "LANG": "C", "USER": "verif", "TMPDIR": "/tmp"}
    if extra:
        env.update(extra)
    return env


def run_plz(bindir, cwd, args, seed, home, trace_path, policy="", choices=None, stalls=None, num_stalls=0,
            horizon=0, faults=None, env_extra=None, timeout=180, max_steps=0, extra_yields=False, gomaxprocs=None,
            multi=None, multi_offsets=None, binary="simplz", test_name="TestVerifSim", extra_run=None):
    run = {"seed": seed, "policy": policy, "args": args, "trace": trace_path, "num_stalls": num_stalls,
           "horizon": horizon, "max_steps": max_steps, "extra_yields": extra_yields}
    if choices is not None:
        run["choices"] = choices
    if stalls is not None:
        run["stalls"] = stalls
    if faults:
        run["faults"] = faults
    if multi:
        run["multi"] = multi
        run["multi_offsets"] = multi_offsets or []
    if extra_run:
        run.update(extra_run)
    # A recorded choice list may no longer fit the code; the run is then repeated from the recorded seed.
    # The diverged attempt must leave nothing behind, so the state it can touch (the repository with its
    # plz-out, and the action log and cache directory beside it) is saved first and put back before the repeat.
    snap = None
    if choices:
        snap = trace_path + ".snap"
        shutil.rmtree(snap, ignore_errors=True)
        os.makedirs(snap)
        parent = os.path.dirname(cwd.rstrip("/"))
        for item in (os.path.basename(cwd.rstrip("/")), "log", "cache"):
            src = os.path.join(parent, item)
            if os.path.isdir(src):
                shutil.copytree(src, os.path.join(snap, item), symlinks=True)
            elif os.path.exists(src):
                shutil.copy2(src, os.path.join(snap, item))
    runfile = trace_path + ".run.json"
    with open(runfile, "w") as f:
        json.dump(run, f)
    env = base_env(home, env_extra)
    env["VERIF_RUN"] = runfile
    if choices is not None and len(choices) == 0:
        env["VERIF_REPLAY_EMPTY"] = "1"
    if gomaxprocs:
        env["GOMAXPROCS"] = str(gomaxprocs)
    t0 = time.time()
    p = subprocess.Popen([os.path.join(bindir, binary + ".test"), "-test.run", "^%s$" % test_name, "-test.timeout", "0"],
                         cwd=cwd, env=env, stdin=subprocess.DEVNULL, stdout=subprocess.PIPE, stderr=subprocess.PIPE,
                         start_new_session=True)
    try:
        out, err = p.communicate(timeout=timeout)
    except subprocess.TimeoutExpired:
        try:
            os.killpg(p.pid, signal.SIGKILL)
        except OSError:
            pass
        out, err = p.communicate()
        raise Infra("simulator watchdog: invocation %r in %s exceeded %ds wall (run file %s)\nstderr tail: %s" % (args, cwd, timeout, runfile, err[-2000:].decode("utf8", "replace")))
    r = Result()
    r.exit = p.returncode
    r.stdout = out.decode("utf8", "replace")
    r.stderr = err.decode("utf8", "replace")
    r.trace_path = trace_path
    r.wall = time.time() - t0
    r.how = "exit"
    r.stats = {}
    r.killed_at = None
    r.sim_fail = None
    if r.exit == -signal.SIGKILL:
        r.how = "killed"
    # pick stats / hang lines from the tail of the trace
    try:
        with open(trace_path, "rb") as f:
            f.seek(0, 2)
            size = f.tell()
            f.seek(max(0, size - 4000))
            tail = f.read().decode("utf8", "replace").splitlines()
        for l in tail:
            if l.startswith("S {"):
                try:
                    r.stats = json.loads(l[2:])
                except ValueError:
                    pass
            elif l.startswith("H "):
                r.sim_fail = l
            elif l.startswith("K "):
                r.killed_at = l
    except OSError:
        pass
    if r.exit == EXIT_DIVERGENCE:
        if os.environ.get("VERIF_STRICT_REPLAY"):
            raise Infra("replay divergence in %s: %s" % (cwd, r.sim_fail))
        # The recorded choice list no longer fits the code (it changed since the file was written):
        # fall back to the recorded seed and policy, which is still one exactly repeatable execution.
        print("note: recorded schedule diverged (%s); re-running from the recorded seed" % r.sim_fail, file=sys.stderr)
        if snap:
            parent = os.path.dirname(cwd.rstrip("/"))
            for item in (os.path.basename(cwd.rstrip("/")), "log", "cache"):
                cur = os.path.join(parent, item)
                subprocess.run(["chmod", "-R", "u+rwx", cur], stderr=subprocess.DEVNULL)
                if os.path.isdir(cur) and not os.path.islink(cur):
                    shutil.rmtree(cur, ignore_errors=True)
                elif os.path.lexists(cur):
                    os.remove(cur)
                saved = os.path.join(snap, item)
                if os.path.isdir(saved):
                    shutil.copytree(saved, cur, symlinks=True)
                elif os.path.exists(saved):
                    shutil.copy2(saved, cur)
        return run_plz(bindir, cwd, args, seed, home, trace_path, policy=policy, choices=None, stalls=stalls, num_stalls=num_stalls,
                       horizon=horizon, faults=faults, env_extra=env_extra, timeout=timeout, max_steps=max_steps, extra_yields=extra_yields,
                       gomaxprocs=gomaxprocs, multi=multi, multi_offsets=multi_offsets, binary=binary, test_name=test_name, extra_run=extra_run)
    if snap:
        shutil.rmtree(snap, ignore_errors=True)
    if r.exit == EXIT_INTERNAL:
        raise Infra("simulator internal error in %s: %s" % (cwd, r.stderr[-2000:]))
    return r


# ------------------------------------------------------------------------------------------------
# Scratch areas


class Scratch:
    """A scratch directory on tmpfs, removed on close."""
    _n = 0

    def __init__(self, tag="s"):
        Scratch._n += 1
        self.root = os.path.join(SHM, "verif-%d-%s-%d" % (os.getpid(), tag, Scratch._n))
        shutil.rmtree(self.root, ignore_errors=True)
        os.makedirs(self.root)

    def path(self, *p):
        return os.path.join(self.root, *p)

    def close(self):
        subprocess.run(["chmod", "-R", "u+rwx", self.root], stderr=subprocess.DEVNULL)
        shutil.rmtree(self.root, ignore_errors=True)

    def __enter__(self):
        return self

    def __exit__(self, *a):
        self.close()


def cleanup_stale():
    """Remove scratch dirs of dead processes."""
    for d in os.listdir(SHM):
        if d.startswith("verif-"):
            try:
                pid = int(d.split("-")[1])
                os.kill(pid, 0)
            except (ValueError, IndexError):
                continue
            except ProcessLookupError:
                shutil.rmtree(os.path.join(SHM, d), ignore_errors=True)
            except PermissionError:
                pass


# ------------------------------------------------------------------------------------------------
# Tree snapshots (for output comparison)


def snapshot(path):
    """Returns a canonical description of a file tree or file: {relpath: (kind, payload, execbit)}."""
    res = {}
    if not os.path.lexists(path):
        return None

    def one(p, rel):
        if os.path.islink(p):
            res[rel] = ("L", os.readlink(p), 0)
        elif os.path.isdir(p):
            res[rel] = ("D", "", 0)
            for n in sorted(os.listdir(p)):
                one(os.path.join(p, n), rel + "/" + n if rel else n)
        else:
            with open(p, "rb") as f:
                data = f.read()
            res[rel] = ("F", hashlib.sha256(data).hexdigest()[:24] + ":%d" % len(data), 1 if os.stat(p).st_mode & 0o111 else 0)
    one(path, "")
    return res


def snap_digest(snap):
    return hashlib.sha256(json.dumps(snap, sort_keys=True).encode()).hexdigest()[:16]
