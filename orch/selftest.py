"""Self-tests of the machinery (not part of any property verdict).

  verifctl selftest determinism [nseeds]   same seed => same schedule trace, FS trace, action log and exit code,
                                           across repeats and GOMAXPROCS 1/4/16, for whole-plz runs and for the
                                           in-package harnesses. Exit 2 (infrastructure) on any divergence.
"""
import concurrent.futures as cf
import hashlib, json, os, shutil, sys

import simlib, repospec as rs, schedchecks as sc, cachechecks as cc
from simlib import subseed


def _plz_determinism(args):
    bindir, seed = args
    case = sc.gen_case_c05(seed, "quick") if seed % 2 else sc.gen_case_c04(seed, "quick")
    run = case["runs"][0]
    out = []
    with simlib.Scratch("det") as s:
        repo = s.path("repo")
        os.makedirs(repo)
        os.makedirs(s.path("home"))
        rs.materialise(case["spec"], repo, s.path("log"))
        seen = set()
        for i, gp in enumerate([1, 4, 16, 16, 2, 1]):
            shutil.rmtree(os.path.join(repo, "plz-out"), ignore_errors=True)
            if os.path.exists(s.path("log")):
                os.remove(s.path("log"))
            res = simlib.run_plz(bindir, repo, run["args"], run["seed"], s.path("home"), s.path("t%d" % i), gomaxprocs=gp, num_stalls=run.get("num_stalls", 0), horizon=run.get("horizon", 0))
            try:
                log = open(s.path("log")).read()
            except OSError:
                log = ""
            seen.add((res.trace_digest(), res.exit, hashlib.sha256(log.encode()).hexdigest()[:12]))
        if len(seen) != 1:
            out.append("whole-plz seed %d args %s: %d distinct (trace, exit, action log) over 6 runs: %s" % (seed, run["args"][:3], len(seen), sorted(seen)))
    return out


def _harness_determinism(args):
    bindir, mode, seed = args
    outs = []
    for rep in range(3):
        if mode == "c15":
            results, _ = cc.run_cmap(bindir, seed, 0, 40)
            norm = json.dumps([[r["history"], r.get("violation")] for r in results], sort_keys=True)
        elif mode == "c27":
            norm = json.dumps([[r["distinct"], r.get("violation")] for r in cc.run_core(bindir, seed, 0, 20)], sort_keys=True)
        else:
            results = cc.run_harness(bindir, "cache", "TestVerifCache", mode, seed, 0, 6, "quick")
            norm = json.dumps([[r["evals"], r["sigs"], r["stats"], (r.get("violation") or {}).get("class")] for r in results], sort_keys=True)
        outs.append(hashlib.sha256(norm.encode()).hexdigest()[:16])
    if len(set(outs)) != 1:
        return ["harness %s seed %d: results differ between repeats: %s" % (mode, seed, outs)]
    return []


def main(argv):
    if not argv or argv[0] != "determinism":
        print(__doc__)
        return 2
    n = int(argv[1]) if len(argv) > 1 else 30
    bindir = simlib.build(("simplz", "cache", "cmap", "core"))
    simlib.build_linchk()
    # audit: iteration-order leaks in our own harness code
    problems = []
    work = [(_plz_determinism, (bindir, 1000 + i)) for i in range(n)]
    for mode in ("c12", "c12c", "c12m", "c14", "c15", "c27"):
        for i in range(3):
            work.append((_harness_determinism, (bindir, mode, 500 + i)))
    with cf.ProcessPoolExecutor(max_workers=12) as ex:
        futs = [ex.submit(f, a) for f, a in work]
        for f in cf.as_completed(futs):
            problems += f.result()
    print("determinism self-test: %d whole-plz seeds x 6 runs (GOMAXPROCS 1/4/16/16/2/1), 18 harness batches x 3 repeats; %d divergences" % (n, len(problems)))
    for p in problems:
        print("DIVERGENCE:", p)
    return 2 if problems else 0
