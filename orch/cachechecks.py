"""Checks driven through the in-package cache harness (src/cache test binary): C12, C13, C14."""
import json, os, signal, subprocess

import simlib
from framework import CaseResult, Violation
from simlib import Infra, Scratch


def run_harness(bindir, binary, test, mode, seed, start, count, tier, replay=None, timeout=600, extra_env=None):
    """Runs `count` scenarios of `mode` in one OS process; returns list of result dicts."""
    with Scratch(mode) as sc:
        run = {"mode": mode, "seed": seed, "start": start, "count": count, "root": sc.path("w"), "out": sc.path("out.jsonl"), "tier": tier}
        if replay is not None:
            run["replay"] = replay
        os.makedirs(sc.path("w"))
        os.makedirs(sc.path("home"))
        rf = sc.path("run.json")
        with open(rf, "w") as f:
            json.dump(run, f)
        env = simlib.base_env(sc.path("home"), extra_env)
        env["VERIF_RUN"] = rf
        p = subprocess.Popen([os.path.join(bindir, binary + ".test"), "-test.run", "^%s$" % test, "-test.timeout", "0"],
                             cwd=sc.path("w"), env=env, stdin=subprocess.DEVNULL, stdout=subprocess.PIPE, stderr=subprocess.PIPE, start_new_session=True)
        try:
            out, err = p.communicate(timeout=timeout)
        except subprocess.TimeoutExpired:
            try:
                os.killpg(p.pid, signal.SIGKILL)
            except OSError:
                pass
            out, err = p.communicate()
            raise Infra("harness watchdog: mode %s seed %d start %d exceeded %ds\n%s" % (mode, seed, start, timeout, err[-1500:].decode("utf8", "replace")))
        results = []
        try:
            with open(sc.path("out.jsonl")) as f:
                for l in f:
                    if l.strip():
                        results.append(json.loads(l))
        except OSError:
            pass
        if p.returncode != 0 or len(results) < count:
            raise Infra("harness %s/%s mode %s exited %d with %d/%d results\nstderr tail: %s" % (binary, test, mode, p.returncode, len(results), count, err[-3000:].decode("utf8", "replace")))
        return results


def collect(results, engine, binary, test):
    r = CaseResult()
    for res in results:
        r.evals += res.get("evals", 0)
        for s in res.get("sigs") or []:
            r.sigs.append(s)
        for k, v in (res.get("stats") or {}).items():
            r.stats[k] = r.stats.get(k, 0) + v
        r.stats.setdefault("scenarios", {})
        r.stats["scenarios"][res["mode"]] = r.stats["scenarios"].get(res["mode"], 0) + 1
        if r.sample is None:
            r.sample = {"mode": res["mode"], "params": res.get("params"), "ops": res.get("sample")}
        for kv in res.get("known") or []:
            r.pending_known.append((kv["finding"], kv["class"], kv["detail"]))
        v = res.get("violation")
        if v and v.get("finding"):
            r.pending_known.append((v["finding"], v["class"], v["detail"]))
            rp = {"engine": engine, "binary": binary, "test": test, "mode": res["mode"], "scenario_seed": res["seed"], "scenario_index": res["index"], "replay": v.get("replay")}
            r.tagged.append((v["finding"], Violation(v["class"], v["detail"], rp)))
            continue
        if v and not r.violations:
            rp = {"engine": engine, "binary": binary, "test": test, "mode": res["mode"], "scenario_seed": res["seed"], "scenario_index": res["index"], "replay": v.get("replay")}
            r.violations.append(Violation(v["class"], v["detail"], rp))
    return r


# scenarios per case (one OS process each)
C12_BATCH = {"c12": 4, "c12m": 20, "c12c": 30}


def case_c12(bindir, seed, index, tier, extra):
    mode = ["c12", "c12c", "c12m", "c12", "c12c"][index % 5]
    n = C12_BATCH[mode]
    res = run_harness(bindir, "cache", "TestVerifCache", mode, seed, 0, n, tier)
    return collect(res, "crashfs+schedsim", "cache", "TestVerifCache")


def case_c14(bindir, seed, index, tier, extra):
    res = run_harness(bindir, "cache", "TestVerifCache", "c14", seed, 0, 25, tier)
    return collect(res, "schedsim+crashfs", "cache", "TestVerifCache")


def replay_harness(bindir, rp):
    inner = rp.get("replay") or {}
    payload = inner.get("params") if "params" in inner else inner
    res = run_harness(bindir, rp["binary"], rp["test"], rp["mode"], rp["scenario_seed"], rp["scenario_index"], 1, rp.get("tier", "quick"), replay=payload)
    out = []
    for r in res:
        if r.get("violation"):
            out.append((r["violation"]["class"], r["violation"]["detail"]))
    return out
