"""Checks driven through the in-package cache harness (src/cache test binary): C12, C13, C14."""
import json, os, signal, subprocess

import simlib
from framework import CaseResult, Violation
from simlib import Infra, Scratch


def run_harness(bindir, binary, test, mode, seed, start, count, tier, replay=None, timeout=600, extra_env=None):
    """Runs `count` scenarios of `mode` in one OS process; returns list of result dicts."""
    with Scratch(mode) as sc:
        run = {"mode": mode, "seed": seed, "start": start, "count": count, "root": sc.path("w"), "out": sc.path("out.jsonl"), "tier": tier}
        if replay is not None:
            run["replay"] = replay
        os.makedirs(sc.path("w"))
        os.makedirs(sc.path("home"))
        rf = sc.path("run.json")
        with open(rf, "w") as f:
            json.dump(run, f)
        env = simlib.base_env(sc.path("home"), extra_env)
        env["VERIF_RUN"] = rf
        if replay is not None and not os.environ.get("VERIF_STRICT_REPLAY"):
            env["VERIF_LENIENT_REPLAY"] = "1"   # recorded choices that no longer fit the code: continue with the seeded policy
        p = subprocess.Popen([os.path.join(bindir, binary + ".test"), "-test.run", "^%s$" % test, "-test.timeout", "0"],
                             cwd=sc.path("w"), env=env, stdin=subprocess.DEVNULL, stdout=subprocess.PIPE, stderr=subprocess.PIPE, start_new_session=True)
        try:
            out, err = p.communicate(timeout=timeout)
        except subprocess.TimeoutExpired:
            try:
                os.killpg(p.pid, signal.SIGKILL)
            except OSError:
                pass
            out, err = p.communicate()
            raise Infra("harness watchdog: mode %s seed %d start %d exceeded %ds\n%s" % (mode, seed, start, timeout, err[-1500:].decode("utf8", "replace")))
        results = []
        try:
            with open(sc.path("out.jsonl")) as f:
                for l in f:
                    if l.strip():
                        results.append(json.loads(l))
        except OSError:
            pass
        if p.returncode != 0 or len(results) < count:
            raise Infra("harness %s/%s mode %s exited %d with %d/%d results\nstderr tail: %s" % (binary, test, mode, p.returncode, len(results), count, err[-3000:].decode("utf8", "replace")))
        return results


def collect(results, engine, binary, test):
    r = CaseResult()
    for res in results:
        r.evals += res.get("evals", 0)
        for s in res.get("sigs") or []:
            r.sigs.append(s)
        for k, v in (res.get("stats") or {}).items():
            r.stats[k] = r.stats.get(k, 0) + v
        r.stats.setdefault("scenarios", {})
        r.stats["scenarios"][res["mode"]] = r.stats["scenarios"].get(res["mode"], 0) + 1
        if r.sample is None:
            r.sample = {"mode": res["mode"], "params": res.get("params"), "ops": res.get("sample")}
        for kv in res.get("known") or []:
            r.pending_known.append((kv["finding"], kv["class"], kv["detail"]))
        v = res.get("violation")
        if v and v.get("finding"):
            r.pending_known.append((v["finding"], v["class"], v["detail"]))
            rp = {"engine": engine, "binary": binary, "test": test, "mode": res["mode"], "scenario_seed": res["seed"], "scenario_index": res["index"], "replay": v.get("replay")}
            r.tagged.append((v["finding"], Violation(v["class"], v["detail"], rp)))
            continue
        if v and not r.violations:
            rp = {"engine": engine, "binary": binary, "test": test, "mode": res["mode"], "scenario_seed": res["seed"], "scenario_index": res["index"], "replay": v.get("replay")}
            r.violations.append(Violation(v["class"], v["detail"], rp))
    return r


# scenarios per case (one OS process each)
C12_BATCH = {"c12": 4, "c12m": 20, "c12c": 30, "c12e": 4}


def case_c12(bindir, seed, index, tier, extra):
    mode = ["c12", "c12c", "c12m", "c12", "c12c", "c12e"][index % 6]
    n = C12_BATCH[mode]
    res = run_harness(bindir, "cache", "TestVerifCache", mode, seed, 0, n, tier)
    return collect(res, "crashfs+schedsim", "cache", "TestVerifCache")


def case_c14(bindir, seed, index, tier, extra):
    if index % 4 == 3:
        res = run_harness(bindir, "cache", "TestVerifCache", "c14k", seed, 0, 3, tier)
        return collect(res, "schedsim+crashfs", "cache", "TestVerifCache")
    res = run_harness(bindir, "cache", "TestVerifCache", "c14", seed, 0, 25, tier)
    return collect(res, "schedsim+crashfs", "cache", "TestVerifCache")


def case_c13(bindir, seed, index, tier, extra):
    res = run_harness(bindir, "cache", "TestVerifCache", "c13", seed, 0, 6 if tier == "quick" else 12, tier, timeout=900)
    return collect(res, "crashfs+simnet", "cache", "TestVerifCache")


def replay_harness(bindir, rp):
    inner = rp.get("replay") or {}
    payload = inner.get("params") if "params" in inner else inner
    if isinstance(payload, dict) and "layout" in inner:
        payload = dict(payload, layout=inner["layout"])   # (package / cache-directory spelling variant of the scenario)
    res = run_harness(bindir, rp["binary"], rp["test"], rp["mode"], rp["scenario_seed"], rp["scenario_index"], 1, rp.get("tier", "quick"), replay=payload)
    out = []
    for r in res:
        if r.get("violation"):
            out.append((r["violation"]["class"], r["violation"]["detail"]))
    return out


# ================================================================================================
# C15: awaitable map


def run_cmap(bindir, seed, start, count, replay=None, timeout=600):
    with Scratch("c15") as sc:
        run = {"seed": seed, "start": start, "count": count, "out": sc.path("out.jsonl")}
        if replay is not None:
            run["replay"] = replay
        os.makedirs(sc.path("home"))
        rf = sc.path("run.json")
        with open(rf, "w") as f:
            json.dump(run, f)
        env = simlib.base_env(sc.path("home"))
        env["VERIF_RUN"] = rf
        if replay is not None and not os.environ.get("VERIF_STRICT_REPLAY"):
            env["VERIF_LENIENT_REPLAY"] = "1"   # recorded choices that no longer fit the code: continue with the seeded policy
        p = subprocess.run([os.path.join(bindir, "cmap.test"), "-test.run", "^TestVerifCmap$", "-test.timeout", "0"], cwd=sc.root, env=env,
                           stdin=subprocess.DEVNULL, stdout=subprocess.PIPE, stderr=subprocess.PIPE, timeout=timeout)
        results = []
        try:
            with open(sc.path("out.jsonl")) as f:
                results = [json.loads(l) for l in f if l.strip()]
        except OSError:
            pass
        if p.returncode != 0 or len(results) < count:
            raise Infra("cmap harness exited %d with %d/%d results\n%s" % (p.returncode, len(results), count, p.stderr[-3000:].decode("utf8", "replace")))
        lc = subprocess.run([os.path.join(simlib.BUILD_ROOT, "linchk"), sc.path("out.jsonl")], stdout=subprocess.PIPE, stderr=subprocess.PIPE, timeout=timeout)
        if lc.returncode != 0:
            raise Infra("linchk failed: %s" % lc.stderr[-2000:].decode("utf8", "replace"))
        verdicts = {}
        for l in lc.stdout.decode().splitlines():
            if l.strip():
                v = json.loads(l)
                verdicts[v["index"]] = v
        return results, verdicts


def collect_c15(results, verdicts):
    r = CaseResult()
    r.stats = {"linearizability_ok": 0, "linearizability_unknown": 0, "sched_steps": 0, "errmap_scenarios": 0, "ops_checked": 0, "waiters_released": 0}
    for res in results:
        r.evals += 1
        v = verdicts.get(res["index"], {"result": "unknown"})
        r.stats["sched_steps"] += res["stats"].get("sched_steps", 0)
        r.stats["ops_checked"] += v.get("ops", 0)
        r.stats["waiters_released"] += sum(1 for e in res["history"] if e["kind"] == "woken" and e["ret"] >= 0)
        if res["params"]["errmap"]:
            r.stats["errmap_scenarios"] += 1
        if v["result"] == "ok":
            r.stats["linearizability_ok"] += 1
        elif v["result"] == "unknown":
            r.stats["linearizability_unknown"] += 1
        if res.get("overlaps", 0) >= 2:
            import hashlib
            r.sigs.append(hashlib.sha256(json.dumps(res["history"], sort_keys=True).encode()).hexdigest()[:16])
        if r.sample is None:
            r.sample = {"shards": res["params"]["shards"], "clients": res["params"]["clients"], "history_len": len(res["history"])}
        viol = res.get("violation")
        if not viol and v["result"] == "illegal":
            viol = {"class": "not-linearizable", "detail": v.get("detail", "") + "; history: " + json.dumps([[e["client"], e["kind"], e["key"], e["val"], e["out"], e["outb"], e["wait"], e["call"], e["ret"]] for e in res["history"]])}
        if viol and not r.violations:
            rp = {"engine": "schedsim+porcupine", "scenario_seed": res["seed"], "scenario_index": res["index"], "replay": res["params"]}
            r.violations.append(Violation(viol["class"], viol["detail"], rp))
    return r


def case_c15(bindir, seed, index, tier, extra):
    n = 120 if tier == "quick" else 400
    results, verdicts = run_cmap(bindir, seed, 0, n)
    return collect_c15(results, verdicts)


def replay_c15(bindir, rp):
    results, verdicts = run_cmap(bindir, rp["scenario_seed"], rp["scenario_index"], 1, replay=rp["replay"])
    r = collect_c15(results, verdicts)
    return [(v.cls, v.detail) for v in r.violations]


# ================================================================================================
# C27: coverage aggregation order


def run_core(bindir, seed, start, count, replay=None, timeout=600):
    with Scratch("c27") as sc:
        run = {"seed": seed, "start": start, "count": count, "out": sc.path("out.jsonl")}
        if replay is not None:
            run["replay"] = replay
        os.makedirs(sc.path("home"))
        os.makedirs(sc.path("w"))
        with open(sc.path("w", ".plzconfig"), "w") as f:
            f.write("[please]\nselfupdate = false\n")
        rf = sc.path("run.json")
        with open(rf, "w") as f:
            json.dump(run, f)
        env = simlib.base_env(sc.path("home"))
        env["VERIF_RUN"] = rf
        if replay is not None and not os.environ.get("VERIF_STRICT_REPLAY"):
            env["VERIF_LENIENT_REPLAY"] = "1"   # recorded choices that no longer fit the code: continue with the seeded policy
        p = subprocess.run([os.path.join(bindir, "core.test"), "-test.run", "^TestVerifCore$", "-test.timeout", "0"], cwd=sc.path("w"), env=env,
                           stdin=subprocess.DEVNULL, stdout=subprocess.PIPE, stderr=subprocess.PIPE, timeout=timeout)
        results = []
        try:
            with open(sc.path("out.jsonl")) as f:
                results = [json.loads(l) for l in f if l.strip()]
        except OSError:
            pass
        if p.returncode != 0 or len(results) < count:
            raise Infra("core harness exited %d with %d/%d results\n%s" % (p.returncode, len(results), count, p.stderr[-3000:].decode("utf8", "replace")))
        return results


def collect_c27(results):
    r = CaseResult()
    r.stats = {"sched_steps": 0, "duplicate_deliveries": 0}
    for res in results:
        r.evals += res["evals"]
        r.stats["sched_steps"] += res["stats"].get("sched_steps", 0)
        if res["params"]["dup"] >= 0:
            r.stats["duplicate_deliveries"] += 1
        if len(res["params"]["tests"]) >= 2:
            for o in res["distinct"]:
                r.sigs.append("%d/%s" % (res["seed"], o))
        if r.sample is None:
            r.sample = {"tests": res["params"]["tests"], "orders_seen": res["distinct"]}
        v = res.get("violation")
        if v and not r.violations:
            r.violations.append(Violation(v["class"], v["detail"], {"engine": "schedsim", "scenario_seed": res["seed"], "scenario_index": res["index"], "replay": res["params"]}))
    return r


def case_c27(bindir, seed, index, tier, extra):
    return collect_c27(run_core(bindir, seed, 0, 40 if tier == "quick" else 150))


def replay_c27(bindir, rp):
    r = collect_c27(run_core(bindir, rp["scenario_seed"], rp["scenario_index"], 1, replay=rp["replay"]))
    return [(v.cls, v.detail) for v in r.violations]
