#!/usr/bin/env python3
"""Generates /verif/MANIFEST.json from the tables below (single source of truth)."""
import json, os, sys

HERE = os.path.dirname(os.path.dirname(os.path.abspath(__file__)))

NA = {
    "C06": "Pure function of a finished dependency graph (node iteration order is an input permutation); no schedule, clock, fault or durable history for a simulator to own. Its schedule/clock-dependent side (checker racing graph construction, firing during stalls) is exercised inside the C05 simulation.",
    "C08": "Pure function of one target definition (rule hash of an attribute set); deciding it is input generation, not simulation. Boundary-shift edits in the C01 histories make hash-collision staleness observable as a by-product only.",
    "C09": "Pure function of a file tree (path hash); no interleaving, fault or history in the property. Consequences for rebuild decisions are exercised by C01's rename edits.",
    "C16": "Pure function of a program text (asp vs CPython differential); no nondeterminism for a simulator to control.",
    "C18": "Pure function of a program text (frozen vs ordinary values); no schedule, fault or history.",
    "C19": "Pure function of a byte string (parser totality); coverage-guided fuzzing territory, not simulation.",
    "C20": "Pure functions of strings (label parse/print, pattern matching).",
    "C21": "Pure function of (directory tree, patterns); glob has no concurrency, clock or fault dependence.",
    "C22": "Pure function of (directory tree, config); the walker goroutine is a single producer with one deterministic order.",
    "C23": "Pure function of a finished graph (reachability queries).",
    "C24": "Pure function of a (before, after) pair of trees/graphs; no state carried between steps beyond its two inputs.",
    "C25": "Pure function of a finished graph (gc root reachability).",
    "C26": "Pure function of result files (test outcome parsing).",
    "C28": "Remote digest construction fills and walks its directory builder sequentially; declaration order is an input permutation, not a schedule.",
    "C29": "Pure function of a REAPI Tree over an in-memory CAS.",
    "C30": "Behaviour lives in kernel process-group/signal/pipe semantics and real time; exec.Cmd and syscall.Kill are used directly with no seam, so a simulated process table would stub exactly what the property is about, and timing real children is observation of executions the simulator does not control.",
    "C33": "Pure function of (graph, visibility lists).",
    "C34": "Pure function of a file tree (copy/link helpers). Tree equality after cache store/retrieve is compared exactly inside C12, so copy defects on the shapes generated there surface in that check.",
    "C36": "Pure function of (targets with labels, include/exclude flags).",
    "C37": "Pure function of (command string, graph); running the expanded command adds no nondeterminism.",
    "C38": "Pure function of a program text (formatter meaning preservation).",
    "C39": "Pure function of a set of config files and overrides.",
}

# id -> (engine, category, technique, level text, level note, design ref)
CHECKS = {}


def load_checks():
    p = os.path.join(HERE, "orch", "checks.json")
    if os.path.exists(p):
        return json.load(open(p))
    return {}


def main():
    checks = load_checks()
    props = [json.loads(l)["id"] for l in open(os.path.join(HERE, "properties.jsonl"))]
    m = {
        "version": 1,
        "setup_cmd": "./verifctl setup",
        "hooks": {
            "guard": "verif",
            "enable": "No hook is committed to /repo. Every check runs tools/instr (a go/ast source rewriter) over the CURRENT /repo working tree and builds with `go test -c -tags verif -overlay <generated overlay.json>`; the overlay adds package src/verifsim (simulator runtime) and in-package zz_verif_*_test.go harnesses, all carrying //go:build verif.",
            "baseline_off_cmd": "cd /repo && GOFLAGS=-mod=mod GOPROXY=off go test -vet=off -count=1 -timeout 25m ./...",
            "source_commits": [],
            "add_only": True,
        },
        "engines": [
            {"name": "schedsim", "path": "sim/verifsim", "serves_properties": ["C04", "C05", "C07", "C15", "C17", "C27", "C31", "C12", "C14"],
             "kind_free_text": "seeded task scheduler + simulated clock: real plz code inside a testing/synctest bubble, one PRNG-chosen task released per step at instrumented synchronisation points"},
            {"name": "crashfs", "path": "sim/verifsim", "serves_properties": ["C12", "C13", "C14", "C32", "C31"],
             "kind_free_text": "file-system shim over tmpfs: counts/yields/fails/tears every mutating FS call, SIGKILL or task-freeze at the n-th operation"},
            {"name": "simnet", "path": "sim/harness", "serves_properties": ["C13"],
             "kind_free_text": "in-memory http.RoundTripper with byte-offset fault plan (stub of the HTTP cache server)"},
            {"name": "histsim", "path": "orch", "serves_properties": ["C01", "C02", "C03", "C10", "C11", "C32", "C35"],
             "kind_free_text": "seeded edit/invoke/crash histories over generated repositories, each invocation a simulated plz process; oracles = clean build + output model + action log"},
        ],
        "checks": [],
        "not_applicable": [],
        "notes": "Technique family: deterministic simulation with fault injection. See DESIGN.md. Exit codes: 0 held, 1 VIOLATION, 2 infrastructure trouble (never a verdict). Every check first replays corpus/<id>/*.json (recorded failing cases of repaired defects and of deliberately seeded changes, see DESIGN.md section 0 item 11 and section 12), then runs its seeded search; known-findings.txt lists repaired (fixed:) and recorded (known:) defects.",
    }
    for pid in props:
        if pid in checks:
            c = checks[pid]
            m["checks"].append({
                "property_id": pid,
                "quick_cmd": "./verifctl check %s --tier quick" % pid,
                "thorough_cmd": "./verifctl check %s --tier thorough" % pid,
                "evidence_file": "evidence/%s.json" % pid,
                "replay_cmd_template": "./verifctl replay {path}",
                "engine": c["engine"],
                "level_claimed": {"category": c["category"], "text": c["text"], "design_ref": c["design_ref"]},
                "level_note": c["note"],
                "technique": c["technique"],
            })
        else:
            reason = NA.get(pid) or "Not yet claimed: the simulation check for this property is designed (DESIGN.md section 7) but not yet built."
            m["not_applicable"].append({"property_id": pid, "reason": reason})
    json.dump(m, open(os.path.join(HERE, "MANIFEST.json"), "w"), indent=1)
    print("checks:", [c["property_id"] for c in m["checks"]])


if __name__ == "__main__":
    main()
