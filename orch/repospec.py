"""RepoSpec: a small JSON model of a Please repository, its generator, its materialiser and the
edit operations used by history checks. All randomness comes from simlib.Rng."""
import copy, json, os, shutil, hashlib

from simlib import Rng

PKG_POOL = ["a", "b", "p", "pfoo", "p/q", "lib/x", "lib/xy", "z9"]


def label(pkg, name):
    return "//%s:%s" % (pkg, name)


def default_config():
    return {"hash": "sha1", "xattrs": True, "cache": None, "dircompress": False, "cache_workers": 0,
            "passenv": [], "passunsafeenv": [], "extra": [], "threads": 0, "dirclean": False}


def new_spec():
    return {"config": default_config(), "pkgs": {}, "defs": False}


# ------------------------------------------------------------------------------------------------
# Generation


def gen_repo(rng, n_targets=(3, 12), n_pkgs=(1, 4), allow_dir=True, allow_filegroup=True, allow_text=True,
             dep_density=0.5, use_defs_p=0.3, max_fanin=6, binary_p=0.1, env_p=0.0, multi_out_p=0.25,
             require_provide_p=0.0, test_p=0.0, deps_attr_p=0.15, subdir_out_p=0.0, dir_p=0.15):
    spec = new_spec()
    npk = rng.rng(*n_pkgs)
    pkgs = rng.sample(PKG_POOL, npk)
    pkgs.sort()
    for p in pkgs:
        spec["pkgs"][p] = {"files": {}, "targets": [], "use_defs": False}
    if rng.chance(use_defs_p):
        spec["defs"] = True
        spec["defs_chain"] = rng.chance(0.6)
        for p in pkgs:
            if rng.chance(0.5):
                spec["pkgs"][p]["use_defs"] = True
    nt = rng.rng(*n_targets)
    all_t = []  # (pkg, tdict)
    for i in range(nt):
        p = rng.choice(pkgs)
        name = "t%d" % i
        kind = "genrule"
        r = rng.intn(100)
        if allow_filegroup and r < 15 and all_t:
            kind = "filegroup"
        elif allow_text and r < 27:
            kind = "text_file"
        t = {"name": name, "kind": kind, "srcs": [], "deps": [], "outs": [], "salt": "s%d" % rng.intn(1000), "dir": None,
             "binary": False, "env": {}, "pass_env": [], "labels": [], "fail": False, "requires": [], "provides": {},
             "content": None, "named_srcs": False}
        if kind == "text_file":
            t["content"] = "text %s %d\n" % (name, rng.intn(1000))
            t["outs"] = [name + ".txt"]
            t["out"] = name + ".txt"
        else:
            # source files
            nf = rng.intn(3) if kind == "genrule" else rng.intn(2)
            for k in range(nf):
                fn = "%s_s%d.txt" % (name, k)
                spec["pkgs"][p]["files"][fn] = "src %s %d %d\n" % (name, k, rng.intn(1000))
                t["srcs"].append("f:" + fn)
            # target deps
            if all_t:
                nd = 0
                while nd < max_fanin and rng.chance(dep_density):
                    nd += 1
                cands = rng.sample(all_t, min(nd, len(all_t)))
                exported = set()
                for (dp, dt) in cands:
                    if kind == "filegroup":
                        # a filegroup may not collect the same output twice (plz rejects that)
                        names = set(exported_names(spec, dp, dt))
                        if names & exported:
                            continue
                        exported |= names
                    if kind == "genrule" and rng.chance(deps_attr_p):
                        t["deps"].append(label(dp, dt["name"]))   # a dependency that is not a source
                    else:
                        t["srcs"].append("t:" + label(dp, dt["name"]))
                if kind == "genrule" and spec.get("defs") and rng.chance(0.25):
                    t["srcs"].append("t://defs:gen")                 # the subincluded target as an ordinary dependency
            if kind == "filegroup":
                if rng.chance(0.25) and any(x.startswith("f:") for x in t["srcs"]):
                    t["binary"] = True   # a binary filegroup COPIES its source files and marks them executable
                if not t["srcs"]:
                    (dp, dt) = rng.choice(all_t)
                    t["srcs"].append("t:" + label(dp, dt["name"]))
            else:
                if allow_dir and rng.chance(dir_p):
                    t["dir"] = gen_layout(rng, name)
                    t["outs"] = [name + "_d"]
                else:
                    sub = "sub/" if rng.chance(subdir_out_p) else ""
                    t["outs"] = [sub + name + ".out"]
                    if rng.chance(multi_out_p):
                        t["outs"].append(sub + name + ".o2")
                if rng.chance(binary_p):
                    t["binary"] = True
                if rng.chance(env_p):
                    t["env"] = {"EV_" + name.upper(): "v%d" % rng.intn(100)}
        spec["pkgs"][p]["targets"].append(t)
        all_t.append((p, t))
    return spec


def exported_names(spec, pkg, t):
    """output names (relative to the package out dir) a target exports"""
    if t["kind"] != "filegroup":
        return list(t["outs"])
    r = []
    for s in t["srcs"]:
        if s.startswith("f:"):
            r.append(s[2:])
        else:
            ft = find_target(spec, norm_label(pkg, s[2:]))
            if ft:
                r += exported_names(spec, ft[0], ft[1])
    return r


def gen_layout(rng, name):
    """Directory-output layout: list of entries."""
    ents = []
    n = rng.rng(1, 4)
    for i in range(n):
        r = rng.intn(10)
        sub = rng.choice(["", "", "sub/", "sub/deep/"])
        if r < 6:
            ents.append({"p": "%sf%d" % (sub, i), "c": "lit %s %d" % (name, rng.intn(100)), "x": rng.chance(0.2)})
        elif r < 7:
            ents.append({"p": "%sdump%d" % (sub, i), "c": "@dump"})
        elif r < 8 and ents and "c" in ents[0]:
            # relative symlink to the first entry, from top level
            ents.append({"p": "ln%d" % i, "l": ents[0]["p"]})
        elif r < 9:
            ents.append({"p": "%sempty%d" % (sub, i), "d": True})
        else:
            ents.append({"p": "@name", "c": "same"})
    return ents


# ------------------------------------------------------------------------------------------------
# Materialisation

# names, kinds and contents of all inputs. Mode bits of inputs are deliberately NOT written into the
# output: a stale executable bit (known finding C01-exec-bit-not-hashed) must stay a mode-bit
# difference and not be amplified into content differences further down the graph.
DUMP = ('for s in $SRCS; do find -L "$s" | LC_ALL=C sort | while read p; do if [ -d "$p" ]; then echo "D $p"; '
        'else echo "F $p"; cat "$p" 2>/dev/null || echo "!dangling"; fi; done; done')


def gen_cmd(pkg, t, log):
    lab = label(pkg, t["name"])
    pre = 'echo "S %s" >> %s; ' % (lab, log)
    if t.get("fail"):
        return pre + 'echo "E %s fail" >> %s; exit 1' % (lab, log)
    envdump = ""
    if t.get("envdump"):
        envdump = ' env | LC_ALL=C sort | grep -v "^_=" ;'
    if t.get("envvars"):
        envdump += " echo " + " ".join('"%s=[${%s-unset}]"' % (v, v) for v in t["envvars"]) + ";"
    if t.get("dir") is not None:
        body = 'mkdir -p "$OUT"; '
        for e in t["dir"]:
            path = e["p"]
            if path == "@name":
                body += 'n=`cat $SRCS /dev/null | head -1 | tr -cd "a-zA-Z0-9_"`; n=${n:-noname}; echo "%s" > "$OUT/$n"; ' % e["c"]
                continue
            d = os.path.dirname(path)
            if d:
                body += 'mkdir -p "$OUT/%s"; ' % d
            if e.get("d"):
                body += 'mkdir -p "$OUT/%s"; ' % path
            elif "l" in e:
                body += 'ln -s "%s" "$OUT/%s"; ' % (e["l"], path)
            elif e["c"] == "@dump":
                body += '{ echo "T %s %s"; %s; } > "$OUT/%s"; ' % (lab, t["salt"], DUMP, path)
            else:
                body += 'echo "%s %s" > "$OUT/%s"; ' % (e["c"], t["salt"], path)
                if e.get("x"):
                    body += 'chmod +x "$OUT/%s"; ' % path
    else:
        kill = ""
        if t.get("killfile"):
            # fault injection from inside the action: if the trigger file exists, the command kills plz
            # (its parent) with SIGKILL after having written one output, and stops.
            kill = ' if [ -e "%s" ]; then rm -f "%s"; kill -9 $PPID; exit 1; fi;' % (t["killfile"], t["killfile"])
        # (anon: the output does not mention its own name, so renaming it leaves the bytes as they are)
        body = 'for o in $OUTS; do { echo "T %s %s %s";%s %s; } > "$o";%s done; ' % (lab, t["salt"], "-" if t.get("anon") else "${o##*/}", envdump, DUMP, kill)
    if t.get("optlog"):
        # an optional output whose NAME depends on the content of the inputs (optional_outs = ["*.optlog"])
        body += 'tag=`{ echo %s; find $SRCS /dev/null -type f 2>/dev/null | LC_ALL=C sort | xargs cat 2>/dev/null; } | cksum | cut -d" " -f1`; echo "optional %s $tag" > %s_$tag.optlog; ' % (t["salt"], lab, t["name"])
    if t.get("quiet"):
        body += ': %s; ' % t["quiet"]
    return pre + body + 'echo "E %s ok" >> %s' % (lab, log)


def asp_str(s):
    return json.dumps(s)


def asp_list(l):
    return "[" + ", ".join(asp_str(x) for x in l) + "]"


def asp_dict(d):
    return "{" + ", ".join("%s: %s" % (asp_str(k), asp_str(d[k]) if isinstance(d[k], str) else asp_list(d[k])) for k in sorted(d)) + "}"


def src_ref(s):
    kind, v = s.split(":", 1)
    return v


def render_target(pkg, t, log, use_defs):
    k = t["kind"]
    a = ["name = %s" % asp_str(t["name"])]
    srcs = [src_ref(s) for s in t["srcs"]]
    if k == "text_file":
        a.append("content = %s" % asp_str(t["content"]))
        if t.get("out"):
            a.append("out = %s" % asp_str(t["out"]))
        if t.get("hashes"):
            a.append("hashes = %s" % asp_list(t["hashes"]))
        if t.get("binary"):
            a.append("binary = True")
        a.append('visibility = ["PUBLIC"]')
        return "text_file(\n    %s,\n)\n" % ",\n    ".join(a)
    if k == "filegroup":
        a.append("srcs = %s" % asp_list(srcs))
        if t.get("deps"):
            a.append("deps = %s" % asp_list(t["deps"]))
        if t.get("binary"):
            a.append("binary = True")
        if t.get("hashes"):
            a.append("hashes = %s" % asp_list(t["hashes"]))
        if t.get("labels"):
            a.append("labels = %s" % asp_list(t["labels"]))
        if t.get("requires"):
            a.append("requires = %s" % asp_list(t["requires"]))
        if t.get("provides"):
            a.append("provides = %s" % asp_dict(t["provides"]))
        a.append('visibility = ["PUBLIC"]')
        return "filegroup(\n    %s,\n)\n" % ",\n    ".join(a)
    fn = "genrule"
    if k == "gentest":
        fn = "gentest"
        if isinstance(t["test_cmd"], dict):
            a.append("test_cmd = {%s}" % ", ".join("%s: %s" % (asp_str(c), asp_str(v)) for c, v in sorted(t["test_cmd"].items())))
        else:
            a.append("test_cmd = %s" % asp_str(t["test_cmd"]))
        if t.get("data"):
            a.append("data = %s" % asp_list([src_ref(s) for s in t["data"]]))
        a.append("no_test_output = True")
        if t.get("outs"):
            a.append("cmd = %s" % asp_str(t.get("cmd") or gen_cmd(pkg, t, log)))
    elif t.get("cmd_configs"):
        base = t.get("cmd") or gen_cmd(pkg, t, log)
        a.append("cmd = {%s}" % ", ".join("%s: %s" % (asp_str(c), asp_str(base + "; : " + c)) for c in t["cmd_configs"]))
    else:
        a.append("cmd = %s" % asp_str(t.get("cmd") or gen_cmd(pkg, t, log)))
    if t.get("named_srcs"):
        a.append("srcs = %s" % asp_dict({"main": srcs}))
    elif srcs:
        a.append("srcs = %s" % asp_list(srcs))
    if t.get("outs"):
        a.append("outs = %s" % asp_list(t["outs"]))
    if t.get("deps"):
        a.append("deps = %s" % asp_list(t["deps"]))
    if t.get("tools"):
        a.append("tools = %s" % asp_list(t["tools"]))
    if t.get("binary"):
        a.append("binary = True")
    if t.get("env"):
        a.append("env = %s" % asp_dict(t["env"]))
    if t.get("pass_env"):
        a.append("pass_env = %s" % asp_list(t["pass_env"]))
    if t.get("labels"):
        a.append("labels = %s" % asp_list(t["labels"]))
    if t.get("hashes"):
        a.append("hashes = %s" % asp_list(t["hashes"]))
    if t.get("requires"):
        a.append("requires = %s" % asp_list(t["requires"]))
    if t.get("provides"):
        a.append("provides = %s" % asp_dict(t["provides"]))
    if t.get("output_dirs"):
        a.append("output_dirs = %s" % asp_list(t["output_dirs"]))
    if t.get("optional_outs"):
        a.append("optional_outs = %s" % asp_list(t["optional_outs"]))
    a.append('visibility = ["PUBLIC"]')
    if use_defs and fn == "genrule" and not (t.get("tools") or t.get("env") or t.get("pass_env") or t.get("hashes") or t.get("requires") or t.get("provides") or t.get("output_dirs") or t.get("optional_outs") or t.get("named_srcs") or t.get("cmd_configs")):
        fn = "wgenrule"
    return "%s(\n    %s,\n)\n" % (fn, ",\n    ".join(a))


DEFS_SRC = '''def wgenrule(name, cmd, srcs=None, outs=None, deps=None, visibility=None, binary=False, labels=None):
    return genrule(name=name, cmd=cmd, srcs=srcs, outs=outs, deps=deps, visibility=visibility, binary=binary, labels=labels)
'''


def render_files(spec, log):
    """Returns {relative path: bytes} for the whole repository (BUILD files, sources, .plzconfig)."""
    out = {}
    c = spec["config"]
    cfg = ["[please]", "selfupdate = false", "[build]", "path = /usr/local/bin:/usr/bin:/bin", "hashfunction = %s" % c["hash"]]
    if not c["xattrs"]:
        cfg.append("xattrs = false")
    for v in c["passenv"]:
        cfg.append("passenv = %s" % v)
    for v in c["passunsafeenv"]:
        cfg.append("passunsafeenv = %s" % v)
    cfg += ["[display]", "systemstats = false", "[cache]"]
    if c["cache"]:
        cfg.append("dir = %s" % c["cache"])
        cfg.append("dircompress = %s" % ("true" if c["dircompress"] else "false"))
    else:
        cfg.append("dir =")
    cfg.append("dirclean = %s" % ("true" if c.get("dirclean") else "false"))
    cfg.append("workers = %d" % c["cache_workers"])
    cfg += c["extra"]
    out[".plzconfig"] = ("\n".join(cfg) + "\n").encode()
    if spec.get("defs"):
        lab = "//defs:gen"
        pre = ""
        srcs = '["d.build_defs.in"]'
        if spec.get("defs_chain"):
            # the subincluded target has a dependency of its own
            plab = "//defs:pre"
            pre = ('genrule(\n    name = "pre",\n    outs = ["pre.out"],\n    cmd = %s,\n    visibility = ["PUBLIC"],\n)\n\n'
                   % asp_str('echo "S %s" >> %s; echo pre %s > $OUT; echo "E %s ok" >> %s' % (plab, log, spec.get("defs_salt", ""), plab, log)))
            srcs = '["d.build_defs.in", ":pre"]'
        out["defs/BUILD"] = (pre + 'genrule(\n    name = "gen",\n    srcs = %s,\n    outs = ["g.build_defs"],\n'
                             '    cmd = %s,\n    visibility = ["PUBLIC"],\n)\n' % (srcs, asp_str('echo "S %s" >> %s; cat $PKG_DIR/d.build_defs.in > $OUT; echo "E %s ok" >> %s' % (lab, log, lab, log)))).encode()
        out["defs/d.build_defs.in"] = (DEFS_SRC + spec.get("defs_extra", "") + "# %s\n" % spec.get("defs_salt", "")).encode()
    for p in sorted(spec["pkgs"]):
        pk = spec["pkgs"][p]
        s = ""
        if pk.get("raw_prefix"):
            s += pk["raw_prefix"]
        if spec.get("defs") and pk.get("use_defs"):
            s += 'subinclude("//defs:gen")\n\n'
            s += pk.get("raw_after_subinclude", "")
        for t in pk["targets"]:
            s += render_target(p, t, log, spec.get("defs") and pk.get("use_defs")) + "\n"
        if pk.get("raw_suffix"):
            s += pk["raw_suffix"]
        out[p + "/BUILD"] = s.encode()
        for fn, content in pk["files"].items():
            out[p + "/" + fn] = content.encode() if isinstance(content, str) else content
    return out


def materialise(spec, root, log, prev=None, inplace=False):
    """Writes the repository under root. With prev (the previous render) only differences are
    written/removed, so unchanged files keep their inode, mtime and xattrs."""
    files = render_files(spec, log)
    prev = prev or {}
    for rel in sorted(prev):
        if rel not in files:
            try:
                os.remove(os.path.join(root, rel))
            except OSError:
                pass
            d = os.path.dirname(os.path.join(root, rel))
            while d != root and os.path.isdir(d) and not os.listdir(d):
                os.rmdir(d)
                d = os.path.dirname(d)
    for rel in sorted(files):
        if prev.get(rel) == files[rel] and os.path.exists(os.path.join(root, rel)):
            continue
        path = os.path.join(root, rel)
        os.makedirs(os.path.dirname(path), exist_ok=True)
        if inplace and os.path.isfile(path) and not os.path.islink(path):
            # an editor that rewrites the file in place: same inode (hard links and xattrs survive)
            with open(path, "r+b") as f:
                f.truncate(0)
                f.write(files[rel])
            continue
        tmp = path + ".verif-tmp"
        with open(tmp, "wb") as f:
            f.write(files[rel])
        os.replace(tmp, path)
    return files


def tree_digest(files):
    h = hashlib.sha256()
    for rel in sorted(files):
        h.update(rel.encode() + b"\0" + files[rel] + b"\0")
    return h.hexdigest()[:20]


# ------------------------------------------------------------------------------------------------
# Graph helpers over a spec


def all_targets(spec):
    """[(pkg, t)] in definition order"""
    r = []
    for p in sorted(spec["pkgs"]):
        for t in spec["pkgs"][p]["targets"]:
            r.append((p, t))
    return r


def find_target(spec, lab):
    pkg, name = lab[2:].split(":")
    for t in spec["pkgs"].get(pkg, {"targets": []})["targets"]:
        if t["name"] == name:
            return pkg, t
    return None


def norm_label(pkg, ref):
    if ref.startswith(":"):
        return "//%s%s" % (pkg, ref)
    return ref


def direct_deps(spec, pkg, t):
    """labels of the direct dependencies of a target (srcs that are targets, deps, tools, data)."""
    r = []
    for key in ("srcs", "data"):
        for s in t.get(key) or []:
            if s.startswith("t:"):
                r.append(norm_label(pkg, s[2:]))
    for d in (t.get("deps") or []) + (t.get("tools") or []):
        r.append(norm_label(pkg, d))
    if spec.get("defs") and spec["pkgs"][pkg].get("use_defs"):
        pass  # //defs:gen is a parse-time dependency, not a build dependency of the target
    return r


def closure(spec, labels):
    seen = []
    stack = list(labels)
    while stack:
        l = stack.pop()
        if l in seen:
            continue
        ft = find_target(spec, l)
        if ft is None:
            if l in ("//defs:gen", "//defs:pre") and spec.get("defs"):
                seen.append(l)
                if l == "//defs:gen" and spec.get("defs_chain"):
                    stack.append("//defs:pre")
            continue
        seen.append(l)
        stack.extend(direct_deps(spec, ft[0], ft[1]))
    return seen


def expand_request(spec, req):
    """Expands //pkg:all and //... into labels."""
    out = []
    for r in req:
        if r == "//...":
            out += [label(p, t["name"]) for p, t in all_targets(spec)]
            if spec.get("defs"):
                out.append("//defs:gen")
                if spec.get("defs_chain"):
                    out.append("//defs:pre")
        elif r.endswith("/..."):
            base = r[2:-4]
            out += [label(p, t["name"]) for p, t in all_targets(spec) if p == base or p.startswith(base + "/")]
        elif r.endswith(":all"):
            p = r[2:-4]
            out += [label(p, t["name"]) for t in spec["pkgs"].get(p, {"targets": []})["targets"]]
        else:
            out.append(r)
    return out


def out_paths(spec, lab):
    """Paths (relative to the repo root) of a target's outputs in plz-out."""
    ft = find_target(spec, lab)
    if ft is None:
        return []
    pkg, t = ft
    base = "plz-out/bin" if t.get("binary") else "plz-out/gen"
    if t["kind"] == "filegroup":
        r = []
        for s in t["srcs"]:
            if s.startswith("f:"):
                r.append("%s/%s/%s" % (base, pkg, s[2:]))
            else:
                dl = norm_label(pkg, s[2:])
                dft = find_target(spec, dl)
                for op in out_paths(spec, dl):
                    # re-exported under the filegroup's package with the path relative to the dep's package
                    rel = op.split("/", 2)[2]
                    rel = rel[len(dft[0]) + 1:] if rel.startswith(dft[0] + "/") else rel
                    r.append("%s/%s/%s" % (base, pkg, rel))
        return r
    return ["%s/%s/%s" % (base, pkg, o) for o in t["outs"]]


def clone(spec):
    return copy.deepcopy(spec)
