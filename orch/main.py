"""verifctl dispatcher."""
import json, os, sys, time

import simlib
from simlib import Infra

# property id -> dict(module, case fn, replay fn, binaries, cases per tier, level, rule, assumptions, components)
REGISTRY = {}


def register(pid, **kw):
    REGISTRY[pid] = kw


REAL_WHOLE = ["src/please.go (flag parsing, config, exit codes)", "src/core scheduler/graph/locks", "src/plz", "src/parse + asp interpreter",
              "src/build", "src/test", "src/cache", "src/fs", "src/output", "real bash build commands (each an atomic step)", "kernel tmpfs via FS shim"]
STUB_WHOLE = ["goroutine scheduling (seeded scheduler)", "clock/timers (testing/synctest fake clock)", "sync.Mutex/RWMutex/Once (simulator-aware equivalents)",
              "blocking flock (non-blocking + scheduler wait)", "os.CreateTemp names (deterministic counter)", "remote execution / update check / metrics: not run"]

register("C04", module="schedchecks", fn="case_c04", replay="replay_c04", binaries=("simplz",),
         cases={"quick": 40, "thorough": 1500}, budget={"quick": 240, "thorough": 3000}, level="exploration",
         rule="case = generated DAG repo (diamonds, fan-in<=12, require/provide, subinclude built during parse) x request x 3(quick)/8(thorough) seeded schedules (policy random/pct/fifo/starve, threads 1-16, keep_going, clock stalls); a third of the repositories with a subinclude are also run as `plz query deps` (builds only what parsing needs), 30% carry gentests and are run as `plz test`, 20% carry one failing command plus a consumer reached only through `deps` and run with --keep_going; evaluations = simulated plz invocations; distinct_nontrivial = distinct schedule-trace hashes among runs with >=2 simultaneously runnable tasks at >=10 steps",
         assumptions=["code between two yields of different tasks is atomic w.r.t. the scheduler (yields precede every chan/atomic/lock/FS operation of instrumented packages)",
                      "build commands are deterministic DSL scripts that log start/end to an action log", "clean plz-out per run"],
         components={"real": REAL_WHOLE, "stub": STUB_WHOLE})

register("C05", module="schedchecks", fn="case_c05", replay="replay_c05", binaries=("simplz",),
         cases={"quick": 40, "thorough": 1500}, budget={"quick": 240, "thorough": 3000}, level="exploration",
         rule="case = generated repo with one injected failure (failing command / undefined dependency / missing package / BUILD syntax or runtime error / dependency cycle through 1-4 targets / none) x request x 3(quick)/6(thorough) seeded schedules with 0-3 clock stalls of 5-30 s, threads 1-16, keep_going on/off; evaluations = simulated plz invocations; distinct_nontrivial = distinct schedule-trace hashes",
         assumptions=["hang = no runnable task for 10 simulated minutes, or 400000 scheduling steps, or 2 simulated hours (bounded liveness once stalls stop)",
                      "exit code must be non-zero exactly when the request's closure (computed from the RepoSpec) contains the injected failure",
                      "which failure is reported first and which independent targets still ran are not asserted"],
         components={"real": REAL_WHOLE, "stub": STUB_WHOLE})

register("C07", module="schedchecks", fn="case_c07", replay="replay_c07", binaries=("simplz",),
         cases={"quick": 16, "thorough": 600}, budget={"quick": 240, "thorough": 3000}, level="exploration",
         rule="case = generated repo (multi-key env maps, label lists, named srcs, pass_env, require/provide, per-configuration command dicts, a configuration value introduced by the subincluded file with per-package package() overrides and targets embedding it, hash function drawn from 6) x 6(quick)/16(thorough) `plz hash [--detailed]` invocations with permuted command-line order, every third one over a subset of the labels only, threads alternating 1/16, fresh or reused plz-out, each under a different seeded schedule AND a different seeded map-iteration order; oracle: every printed block identical to the first run's block for that label; distinct_nontrivial = distinct schedule-trace hashes",
         assumptions=["Go map iteration order inside instrumented packages is replaced by a seeded per-task shuffle, so map-order leaks vary between runs of a case as they would between real runs"],
         components={"real": REAL_WHOLE, "stub": STUB_WHOLE})

REAL_CACHE = ["src/cache dirCache (Store/Retrieve/clean, compressed and not)", "src/fs copy/link/walk helpers", "core.BuildTarget", "kernel tmpfs via FS shim"]
STUB_CACHE = ["task scheduling (seeded scheduler in a synctest bubble)", "process crash = task freeze at the n-th FS operation (page cache survives, open written files torn to a PRNG prefix)",
              "RemoveAll executed as its individual unlink/rmdir steps", "second checkout / process = second dirCache object with its own output directory"]

register("C12", module="cachechecks", fn="case_c12", replay="replay_harness", binaries=("cache",),
         cases={"quick": 30, "thorough": 1500}, budget={"quick": 240, "thorough": 3000}, level="fault_enumeration",
         rule="three scenario families on the real dirCache: (c12) for a generated output tree (files, nested/empty dirs, relative symlinks, exec bits, odd names; compressed or not; first store or re-store over a published entry) a crash is injected before EVERY filesystem operation of Store in turn (with and without torn writes), then a fresh process retrieves into another checkout; (c12m) fault-free random Store/Retrieve/restart sequences against a key->tree model; (c12c) 2-3 processes store/retrieve the SAME key concurrently with every FS operation a scheduling point; (c12e) as (c12) but instead of a crash the n-th FS operation of Store fails with EIO/ENOSPC/EACCES/EXDEV, for every n. evaluations = crash runs + retrieves checked + concurrent runs; distinct_nontrivial = distinct (scenario, crash point) with the crash actually fired on a tree of >=2 entries, plus concurrent runs with >=5 real scheduling choices",
         assumptions=["crash model = process kill: data already written survives, files open for writing may be cut to a prefix; no power-loss reordering",
                      "a hit must restore exactly the complete tree of some Store of that key (old or new); a miss is always acceptable after a crash"],
         components={"real": REAL_CACHE, "stub": STUB_CACHE})

register("C14", module="cachechecks", fn="case_c14", replay="replay_harness", binaries=("cache",),
         cases={"quick": 24, "thorough": 1200}, budget={"quick": 240, "thorough": 3000}, level="exploration",
         rule="scenario = generated cache directory (0-8 entries of sha1- and sha256-length keys, several per target, access times clustered around the 600 s grace period, stray `key=` temporaries, non-entry files, compressed or not) + Store/Retrieve operations of the current process before (phase 1) and concurrently with (phase 2) the real clean(high, low), water marks below/at/one above/half/zero of the unprotected size; a quarter of the cases instead kill the cleaner before EVERY one of its FS operations in turn (c14k) and require that whatever still exists under a key path retrieves completely; oracle: entries stored or retrieved before cleaning started survive complete, every key path that still exists retrieves completely, no concurrent Retrieve returns a partial tree, and if the unprotected size reached the high-water mark then afterwards it is below the low-water mark or nothing unprotected is left; distinct_nontrivial = scenarios with >=2 entries, by (seed, schedule length)",
         assumptions=["sizes are measured as the cleaner measures them (sum of st_size over a walk)", "LRU order is not asserted", "operations concurrent with clean may hit or miss but never return a partial tree"],
         components={"real": REAL_CACHE, "stub": STUB_CACHE})

register("C15", module="cachechecks", fn="case_c15", replay="replay_c15", binaries=("cmap",), needs_linchk=True,
         cases={"quick": 16, "thorough": 800}, budget={"quick": 240, "thorough": 3000}, level="exploration",
         rule="scenario = 2-5 client tasks (+ a closer that finally sets every awaited key) issuing 2-6 operations each from Add/AddOrGet/Set/Get/GetOrWait/Contains/Values/wait-then-Get over 1-3 keys on the real cmap.Map with 1, 2 or 4 shards (or GetOrSet/Get on ErrMap), <=26 operations per history, every written value unique; the seeded scheduler decides every lock acquisition order (incl. the RUnlock->Lock gap of shard.Get); each history is stamped with scheduler step numbers and checked with porcupine against a per-key sequential model, plus wake-up invariants (no waiter left blocked once its key is set, no release before an insert of that key was invoked, a read after release sees a written value, GetOrSet runs f once and all callers agree); distinct_nontrivial = distinct histories with >=2 overlapping operation pairs on one key",
         assumptions=["critical sections under the shard lock are atomic steps (the simulator-aware RWMutex preserves mutual exclusion)", "Contains on a merely awaited key may answer either way; Values is checked as a regular read",
                      "porcupine verdict Unknown (timeout) is counted, never reported"],
         components={"real": ["src/cmap Map, shard, ErrMap"], "stub": ["sync.RWMutex (simulator-aware equivalent)", "goroutine scheduling (seeded)"]})

register("C27", module="cachechecks", fn="case_c27", replay="replay_c27", binaries=("core",),
         cases={"quick": 8, "thorough": 300}, budget={"quick": 120, "thorough": 1800}, level="exploration",
         rule="scenario = 2-6 simulated test tasks, each delivering generated line coverage (files shared between tests, vectors over the four line states, unequal lengths 0-8) through the real BuildState.LogTestResult, one result optionally delivered twice; the seeded scheduler picks the completion order, 6 orders per scenario; the aggregate must equal the point-wise best with length extension in every order; distinct_nontrivial = distinct (scenario, completion order) pairs with >=2 tests",
         assumptions=["the algebraic core (max-merge) is a pure function; what is simulated is only the order in which tasks pass through the mutex-protected aggregate"],
         components={"real": ["core.BuildState.LogTestResult", "core.TestCoverage.Aggregate / MergeCoverageLines"], "stub": ["goroutine scheduling (seeded)", "sync.Mutex (simulator-aware)"]})

HIST_ASSUME = ["the reference is the literal one in the property: a from-scratch build of the same tree in a fresh directory with an empty plz-out and no cache (memoised per tree digest), under the deterministic `first` schedule",
               "build commands come from a deterministic DSL whose outputs contain the names, kinds, exec bits and contents of all inputs, so a stale dependant is visible in its bytes",
               "only outputs of requested targets (as listed by plz itself) are compared"]

register("C01", module="histchecks", fn="case_c01", replay="replay_c01", binaries=("simplz",),
         known_class_map={"stale-execbit": "C01-exec-bit-not-hashed"},
         cases={"quick": 32, "thorough": 1500}, budget={"quick": 280, "thorough": 3300}, level="exploration",
         rule="history = generated repository (genrules with file and directory outputs, filegroups, text_files, optional subincluded build_defs; hash function and xattrs drawn per history) + 2-6 steps from: content edit, command change, add/remove source, rename an output, rename inside a directory output, env change incl. boundary shift, binary toggle, add/remove dependency, text_file change, output-preserving command change, revert to an earlier state, rm -rf plz-out, rewrite sources with identical bytes; each step followed by `plz build <request>` as a fresh simulated process under its own seeded schedule; evaluations = simulated invocations incl. reference builds; distinct_nontrivial = histories with >=2 steps",
         assumptions=HIST_ASSUME, components={"real": REAL_WHOLE, "stub": STUB_WHOLE})

register("C02", module="histchecks", fn="case_c02", replay="replay_c02", binaries=("simplz",),
         known_class_map={"stale-execbit": "C01-exec-bit-not-hashed"},
         cases={"quick": 32, "thorough": 1500}, budget={"quick": 280, "thorough": 3300}, level="exploration",
         rule="as C01 with a directory cache shared by the whole history (dircompress on/off, cache workers 0/2) and 3-7 steps biased towards rm -rf plz-out and reverts to earlier states, so that artifacts are restored from entries stored under other states (60% follow an A-B-A template; outputs in subdirectories and directory outputs are over-represented; in 30% a SECOND CHECKOUT of the same tree at another root shares the cache and builds alternate between the two); oracle: after every build the requested outputs equal the from-scratch no-cache build of the CURRENT tree",
         assumptions=HIST_ASSUME, components={"real": REAL_WHOLE, "stub": STUB_WHOLE})

register("C03", module="histchecks", fn="case_c03", replay="replay_c03", binaries=("simplz",),
         cases={"quick": 48, "thorough": 1200}, budget={"quick": 280, "thorough": 3300}, level="exploration",
         rule="as C01 (every other case with a directory cache, returns to earlier states, partial reverts and initial builds of one target only, so that restores from the cache take the place of commands); after every build an immediate second build of the unchanged tree must run zero commands, and every command that ran in an incremental build must belong to a target whose rendered definition, configuration, source bytes or dependency output contents (taken from the reference build of that state) changed since its command last ran; commands are observed through an action log written by every command outside the repository",
         assumptions=HIST_ASSUME + ["must-run is not asserted here (C01 decides that through outputs)"], components={"real": REAL_WHOLE, "stub": STUB_WHOLE})

register("C32", module="histchecks", fn="case_c32", replay="replay_c32", binaries=("simplz",),
         cases={"quick": 16, "thorough": 500}, budget={"quick": 280, "thorough": 3300}, level="fault_enumeration",
         rule="history = generated repository, optional earlier successful build, 1-2 edits, then a victim `plz build` whose mutating filesystem operations are counted in an uncrashed dry run under the same seed; the build is then re-run from a restored copy of the pre-build state and killed with SIGKILL before FS operation n (8 sampled n per history in quick, EVERY n in thorough; files open for writing are cut to a PRNG prefix in 70% of crashes), plus a kill issued from inside a running build command after its first output; afterwards a normal build must exit 0 with outputs equal to a clean build, and a third build must run nothing; evaluations = simulated invocations; distinct_nontrivial = distinct (history, crash point) pairs whose crash actually fired and whose recovery was checked",
         assumptions=["crash model = SIGKILL of the plz process: kernel state (page cache, xattrs, renames) survives, nothing deferred runs", "build commands are atomic steps of the simulation, so a crash lands between FS operations of plz itself or at the scripted point inside a command"] + HIST_ASSUME,
         components={"real": REAL_WHOLE, "stub": STUB_WHOLE})

register("C10", module="histchecks", fn="case_c10", replay="replay_c10", binaries=("simplz",),
         cases={"quick": 32, "thorough": 1200}, budget={"quick": 240, "thorough": 3000}, level="exploration",
         rule="case = 2-4 genrules that write their whole environment to their output, each with a random subset of {PV_A, PV_B} in pass_env, config-level passenv/passunsafeenv on or off, an invoking environment of ~8 variables carrying unique canary values, and 2-5 steps that change or unset one variable followed by `plz build`; the invoking environment of every simulated process is constructed exactly; oracle: no canary value of an unlisted variable appears in any output, a listed (hashed) variable's current value is what the output records (so a change forced a rebuild), changing an unlisted or unsafe variable runs no command, an unsafe variable is visible whenever a command runs; distinct_nontrivial = distinct (repository, step list) pairs",
         assumptions=["pass_unsafe_env is a configuration option at this revision ([build] passunsafeenv), so it is exercised through .plzconfig", "environment dumps contain absolute scratch paths and are never compared with another directory's build"],
         components={"real": REAL_WHOLE, "stub": STUB_WHOLE + ["invoking shell environment (constructed by the simulator)"]})

register("C11", module="histchecks", fn="case_c11", replay="replay_c11", binaries=("simplz",),
         cases={"quick": 32, "thorough": 1200}, budget={"quick": 240, "thorough": 3000}, level="exploration",
         rule="case = 2-4 gentest targets whose outcome depends on a data file or on the output of a genrule it lists as data, plus 2-6 steps from: flip a data/source file between pass and fail, change a test command, repeat with no change, rm -rf plz-out, revert to an earlier state (dir cache on in 30%), each followed by `plz test //t:all` as a fresh simulated process; oracle: exit code zero exactly when every test passes on the current tree, per-test outcome in the results file equals the expected one, a test whose command did not run must pass now and must have passed before with the same command and data, a failing test's command always runs; distinct_nontrivial = histories with >=2 steps",
         assumptions=["test commands log their execution to a file outside the repository; expected outcomes are computed from the RepoSpec (content == pass)"],
         components={"real": REAL_WHOLE, "stub": STUB_WHOLE})

register("C35", module="histchecks", fn="case_c35", replay="replay_c35", binaries=("simplz",),
         cases={"quick": 96, "thorough": 1200}, budget={"quick": 240, "thorough": 3000}, level="exploration",
         rule="case = one genrule with known output bytes (single file / two files / directory; binary or not) and a `hashes` declaration drawn from: correct sha1, correct sha256, `algo:`-prefixed with and without space, one nibble off, wrong length, hash of another output, two values with one correct, upper-case; scenario drawn from: build + no-op build, failure then build again (and again after rm -rf plz-out), store in dir cache then corrupt the stored artifact (flip/truncate/swap, compressed or not) and restore, store then change the declaration to a wrong value and restore; oracle: exit 0 iff a declared value equals the output's hash under a configured algorithm, a failed verification stays failed, exit 0 after a restore only with outputs that hash correctly; distinct_nontrivial = distinct (shape, declaration kind, scenario, compress, binary, corruption) tuples",
         assumptions=["single-file hashes are computed independently with hashlib; for two-file and directory outputs the true hash is read from the message plz prints for a deliberately wrong declaration", "upper-case declarations may be accepted or rejected, consistently"],
         components={"real": REAL_WHOLE, "stub": STUB_WHOLE + ["stored-byte corruption applied between invocations by the orchestrator"]})

register("C13", module="cachechecks", fn="case_c13", replay="replay_harness", binaries=("cache",),
         cases={"quick": 32, "thorough": 800}, budget={"quick": 280, "thorough": 3300}, level="fault_enumeration",
         rule="scenario = generated output tree + one fault family: (store-read) a read fault EIO/ENOENT/EACCES on EVERY open/lstat/readlink of the store walk in turn, HTTP or command cache; (store-net) PUT body cut after k bytes / 503 / response lost after commit, repeated 1-6 times against the retry loop under the simulated clock; (retrieve-net) GET body reset or cleanly cut after k bytes / 500; (cmd-retrieve) the retrieve command's output cut at every 512-byte boundary +-1 and near both ends, exiting 0 or 1; (cmd-store-fail) the store command consumes part of the stream and exits 1; after every faulty store a fault-free retrieve runs; oracle: a hit restores exactly the stored tree, otherwise a miss; every body the stub server commits must be a complete archive of the request; evaluations = store+retrieve runs; distinct_nontrivial = distinct (scenario, fault position)",
         assumptions=["the HTTP server is a stub (in-memory RoundTripper installed as http.DefaultTransport) that commits only completely received bodies", "the command cache's store script is atomic (temp file + mv, with a 150 ms guard so that plz's kill on error always precedes the mv)", "read faults are injected at open/lstat/readlink, not in the middle of reading a file"],
         components={"real": ["src/cache httpCache, cmdCache, readTar, storeFile", "hashicorp/go-retryablehttp retry loop under the simulated clock", "real sh/cat/head/mv subprocesses for the command cache"], "stub": ["HTTP server and transport (simnet)", "task scheduling, clock"]})

register("C17", module="schedchecks", fn="case_c17", replay="replay_c17", binaries=("simplz",),
         cases={"quick": 40, "thorough": 1500}, budget={"quick": 240, "thorough": 3000}, level="exploration",
         rule="case = a subincluded build_defs exporting nested list/dict globals and functions returning list/dict literals, and 2-5 packages that each apply 0-3 idioms from a catalogue of 44 mutation / re-ordering forms (index and key assignment at depth 1-2, +=, sorted, reversed, aliasing through locals, comprehensions, on globals, on nested values and on values returned by exported functions) and then define a target whose attribute prints everything the build_defs exports; every package is first parsed alone, then all packages that parse alone are parsed together in 4 (quick) / 10 (thorough) seeded schedules with statement-level yields inside the interpreter, permuted request order and 1-8 parse threads; oracle: each package defines exactly what it defines alone; distinct_nontrivial = distinct schedule traces of joint parses",
         assumptions=["the program space is a seeded catalogue, not all programs: this decides the order/concurrency half of the property", "interleaving inside the interpreter is at statement granularity (named extra yield sites at interpretStatements)"],
         components={"real": REAL_WHOLE, "stub": STUB_WHOLE})

register("C31", module="schedchecks", fn="case_c31", replay="replay_c31", binaries=("simplz",),
         cases={"quick": 40, "thorough": 1200}, budget={"quick": 280, "thorough": 3300}, level="exploration",
         rule="case = generated repository + 2-4 logical `plz build` invocations with overlapping requests (single targets, :all, //...), seed-chosen start offsets of 0-60 scheduling steps, optionally one request built beforehand; each invocation has its own BuildState, graph, parser, display and per-target flock handling, and the seeded scheduler decides the interleaving of every synchronisation and filesystem operation and every flock acquisition of all invocations; 3 (quick) / 8 (thorough) schedules per case; oracle: every invocation exits 0, requested outputs equal a single clean build, a target's command never runs twice at the same time, no deadlock; distinct_nontrivial = distinct schedule traces",
         assumptions=["the invocations share one OS process: package-level globals (filegroup builder memo, repo lock file handle, logging backend, metrics) are shared where real processes would each have their own; flock(2) semantics are real (separate open file descriptions conflict inside one process)", "half of the cases share one directory cache (the invocations are one checkout, so the per-target lock serialises their stores; concurrent stores from different checkouts are C12's known finding and are not exercised here)"],
         components={"real": REAL_WHOLE, "stub": STUB_WHOLE + ["process boundary between the concurrent invocations (they share one address space)"]})


def cmd_check(pid, tier):
    import framework
    if pid not in REGISTRY:
        print("unknown or unclaimed property %s" % pid, file=sys.stderr)
        return 2
    c = REGISTRY[pid]
    simlib.cleanup_stale()
    try:
        bindir = simlib.build(c["binaries"])
        if c.get("needs_linchk"):
            simlib.build_linchk()
    except Infra as e:
        print("INFRA: %s" % e, file=sys.stderr)
        return 2
    n = c["cases"][tier]
    if os.environ.get("VERIF_CASES"):
        n = int(os.environ["VERIF_CASES"])
    budget = c.get("budget", {}).get(tier)
    if os.environ.get("VERIF_BUDGET"):
        budget = int(os.environ["VERIF_BUDGET"])
    return framework.run_check(pid, c["module"], c["fn"], bindir, n, tier, c["level"], c["rule"], c["assumptions"], c["components"],
                               extra=c.get("extra"), budget_s=budget, replay_fn=c.get("replay"), known_class_map=c.get("known_class_map"))


def cmd_replay(path):
    rp = json.load(open(path))
    pid = rp["property"]
    c = REGISTRY[pid]
    try:
        bindir = simlib.build(c["binaries"])
        if c.get("needs_linchk"):
            simlib.build_linchk()
        mod = __import__(c["module"])
        vs = getattr(mod, c["replay"])(bindir, rp)
    except Infra as e:
        print("INFRA: %s" % e, file=sys.stderr)
        return 2
    want = rp["violation"]["class"]
    for (cls, detail) in vs:
        print("replayed violation class=%s detail=%s" % (cls, detail[:1500]))
    if any(cls == want for cls, _ in vs):
        print("VIOLATION property=%s replay=%s" % (pid, path))
        return 1
    if vs:
        print("replay produced a different violation class than recorded (%s)" % want)
        print("VIOLATION property=%s replay=%s" % (pid, path))
        return 1
    print("replay of %s: no violation reproduced" % path)
    return 0


def cmd_setup():
    try:
        simlib.build(("simplz", "cache", "cmap", "core"))
        simlib.build_linchk()
    except Infra as e:
        print("INFRA: %s" % e, file=sys.stderr)
        return 2
    return 0


def main(argv):
    if not argv:
        print(__doc__)
        return 2
    if argv[0] == "setup":
        return cmd_setup()
    if argv[0] == "build":
        try:
            print(simlib.build(tuple(argv[1:]) or ("simplz",)))
        except Infra as e:
            print("INFRA: %s" % e, file=sys.stderr)
            return 2
        return 0
    if argv[0] == "check":
        pid = argv[1]
        tier = os.environ.get("VERIF_TIER", "quick")
        if "--tier" in argv:
            tier = argv[argv.index("--tier") + 1]
        return cmd_check(pid, tier)
    if argv[0] == "replay":
        return cmd_replay(argv[1])
    if argv[0] == "selftest":
        import selftest
        return selftest.main(argv[1:])
    print("unknown command", argv[0], file=sys.stderr)
    return 2
