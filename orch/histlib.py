"""History engine: a sandbox with a generated repository, edit operations on its RepoSpec,
simulated plz invocations in it, and the clean-build oracle (memoised per tree digest)."""
import hashlib, json, os, shutil

import repospec as rs
import simlib
from simlib import Rng, Scratch, run_plz, subseed

BASE_ARGS = ["-p", "-v", "1", "--noupdate"]


def read_log(path):
    try:
        with open(path) as f:
            return [l.split() for l in f.read().splitlines() if l.strip()]
    except OSError:
        return []


class World:
    """One scratch area: repo/ (the working repository), clean/<n>/ (reference builds), log, home."""

    def __init__(self, bindir, tag="h"):
        self.bindir = bindir
        self.sc = Scratch(tag)
        self.repo = self.sc.path("repo")
        self.home = self.sc.path("home")
        self.log = self.sc.path("log")
        os.makedirs(self.repo)
        os.makedirs(self.home)
        self.prev_files = None
        self.inplace = False   # edits rewrite files in place (same inode) instead of replacing them
        self.ninv = 0
        self.nclean = 0
        self.clean_memo = {}
        self.stats = {"invocations": 0, "clean_builds": 0, "clean_memo_hits": 0, "sched_steps": 0, "policies": {}}
        self.sigs = []

    def close(self):
        self.sc.close()

    # -- repository -------------------------------------------------------------------------------
    def write(self, spec):
        self.prev_files = rs.materialise(spec, self.repo, self.log, self.prev_files, inplace=self.inplace)
        return self.prev_files

    def digest(self, spec):
        return rs.tree_digest(rs.render_files(spec, self.log))

    # -- invocations ------------------------------------------------------------------------------
    def plz(self, args, seed, policy="", choices=None, stalls=None, faults=None, env_extra=None, num_stalls=0, cwd=None, home=None, timeout=240):
        """Runs one simulated invocation in the working repo. Returns (result, action log lines of THIS invocation)."""
        self.ninv += 1
        before = len(read_log(self.log))
        tr = self.sc.path("trace%d" % self.ninv)
        if not num_stalls and stalls is None and choices is None and seed % 5 == 0:
            # one invocation in five is suspended for 5-30 simulated seconds at a seeded step (timers fire)
            num_stalls = 1
            self.stats["invocations_with_stall"] = self.stats.get("invocations_with_stall", 0) + 1
        res = run_plz(self.bindir, cwd or self.repo, args, seed, home or self.home, tr, policy=policy, choices=choices, stalls=stalls,
                      faults=faults, env_extra=env_extra, num_stalls=num_stalls, timeout=timeout)
        log = read_log(self.log)[before:]
        self.stats["invocations"] += 1
        self.stats["sched_steps"] += res.stats.get("steps", 0)
        self.stats["sim_ms"] = self.stats.get("sim_ms", 0) + res.stats.get("sim_ms", 0)
        self.stats["fs_ops"] = self.stats.get("fs_ops", 0) + int(res.stats.get("fsops", 0) or 0)
        self.stats["scheduling_points_with_choice"] = self.stats.get("scheduling_points_with_choice", 0) + res.stats.get("choices2plus", 0)
        pol = res.stats.get("policy", "?")
        self.stats["policies"][pol] = self.stats["policies"].get(pol, 0) + 1
        self.sigs.append(res.trace_digest())
        return res, log

    # -- the oracle: a from-scratch build of the same tree ----------------------------------------------
    def clean_build(self, spec, req, extra_args=None, env_extra=None, all_labels=None):
        """Builds `spec` from an empty plz-out with no cache in a fresh directory (memoised).
        Returns dict: exit, stdout_paths (list), snaps {path: snapshot}, content {label: digest}."""
        files = rs.render_files(self._nocache(spec), self.log)
        key = (rs.tree_digest(files), tuple(req), tuple(extra_args or ()), json.dumps(env_extra or {}, sort_keys=True))
        if key in self.clean_memo:
            self.stats["clean_memo_hits"] += 1
            return self.clean_memo[key]
        self.nclean += 1
        d = self.sc.path("clean%d" % self.nclean)
        os.makedirs(d)
        for rel, data in files.items():
            p = os.path.join(d, rel)
            os.makedirs(os.path.dirname(p), exist_ok=True)
            with open(p, "wb") as f:
                f.write(data)
        before = len(read_log(self.log))
        tr = self.sc.path("ctrace%d" % self.nclean)
        res = run_plz(self.bindir, d, ["build"] + list(req) + BASE_ARGS + list(extra_args or ()), 1, self.home, tr, policy="first", env_extra=env_extra)
        self.stats["clean_builds"] += 1
        out = {"exit": res.exit, "stdout_paths": sorted(set(l.strip() for l in res.stdout.splitlines() if l.strip().startswith("plz-out/"))),
               "snaps": {}, "content": {}, "stderr": res.stderr[-1500:], "ran": [l[1] for l in read_log(self.log)[before:] if l[0] == "S"]}
        for p in out["stdout_paths"]:
            out["snaps"][p] = simlib.snapshot(os.path.join(d, p))
        # optional outputs (named after the content of the inputs) of every target that was built
        out["optlogs"] = {}
        for lab in rs.closure(spec, rs.expand_request(spec, req)):
            ft = rs.find_target(spec, lab)
            if ft and ft[1].get("optlog"):
                base = os.path.join("plz-out/bin" if ft[1].get("binary") else "plz-out/gen", ft[0])
                for n in sorted(os.listdir(os.path.join(d, base))) if os.path.isdir(os.path.join(d, base)) else []:
                    if n.startswith(ft[1]["name"] + "_") and n.endswith(".optlog"):
                        out["optlogs"][os.path.join(base, n)] = simlib.snapshot(os.path.join(d, base, n))
        # content digests for every target in the closure (for C03's input-change model)
        for lab in (all_labels or []):
            out["content"][lab] = self._content_digest(spec, lab, d, {})
        # the reference tree is no longer needed
        shutil.rmtree(d, ignore_errors=True)
        self.clean_memo[key] = out
        return out

    def _nocache(self, spec):
        if spec["config"].get("cache"):
            s = rs.clone(spec)
            s["config"]["cache"] = None
            return s
        return spec

    def _content_digest(self, spec, lab, root, memo):
        if lab in memo:
            return memo[lab]
        memo[lab] = "cycle"
        ft = rs.find_target(spec, lab)
        h = hashlib.sha256()
        if lab == "//defs:gen":
            h.update(repr(simlib.snapshot(os.path.join(root, "plz-out/gen/defs/g.build_defs"))).encode())
        elif ft is None:
            h.update(b"missing")
        else:
            pkg, t = ft
            if t["kind"] == "filegroup":
                for s in t["srcs"]:
                    if s.startswith("f:"):
                        h.update(("F " + s[2:] + " ").encode() + (spec["pkgs"][pkg]["files"].get(s[2:], "") if isinstance(spec["pkgs"][pkg]["files"].get(s[2:], ""), str) else "").encode())
                    else:
                        h.update(("T " + self._content_digest(spec, rs.norm_label(pkg, s[2:]), root, memo)).encode())
                h.update(b"bin" if t.get("binary") else b"")
            else:
                base = "plz-out/bin" if t.get("binary") else "plz-out/gen"
                outs = t["outs"] if t["kind"] != "text_file" else [t.get("out") or t["name"]]
                for o in outs:
                    # where an output lives (gen/ or bin/) is part of what dependants see
                    h.update((base + "/" + o + " " + repr(simlib.snapshot(os.path.join(root, base, pkg, o)))).encode())
        memo[lab] = h.hexdigest()[:20]
        return memo[lab]

    def compare_outputs(self, clean, root=None):
        """Compares the working repo's plz-out with a clean build at the clean build's output paths.
        Returns (list of differences (strings), kinds of difference seen)."""
        diffs = []
        kinds = set()
        for p in clean["stdout_paths"]:
            got = simlib.snapshot(os.path.join(root or self.repo, p))
            want = clean["snaps"][p]
            if got != want:
                diffs.append(describe_diff(p, got, want))
                kinds |= diff_kinds(got, want)
        self.stats["optional_outputs_compared"] = self.stats.get("optional_outputs_compared", 0) + len(clean.get("optlogs", {}))
        for p, want in sorted(clean.get("optlogs", {}).items()):
            # what a build of this tree would leave behind must be there (files of other states may linger)
            got = simlib.snapshot(os.path.join(root or self.repo, p))
            if got != want:
                diffs.append("optional output " + describe_diff(p, got, want))
                kinds |= diff_kinds(got, want)
        return diffs, kinds


def diff_kinds(got, want):
    """Classifies how two snapshots differ: {'missing', 'names', 'content', 'execbit', 'kind'}."""
    if got is None or want is None:
        return {"missing"}
    ks = set()
    if set(got) != set(want):
        ks.add("names")
    for k in set(got) & set(want):
        a, b = got[k], want[k]
        if a == b:
            continue
        if a[0] != b[0]:
            ks.add("kind")
        elif a[1] != b[1]:
            ks.add("content")
        elif a[2] != b[2]:
            ks.add("execbit")
    return ks


def describe_diff(path, got, want):
    if got is None:
        return "%s: missing (clean build has %d entries)" % (path, len(want or {}))
    if want is None:
        return "%s: present but the clean build has nothing there" % path
    ks = sorted(set(got) | set(want))
    parts = []
    for k in ks:
        if got.get(k) != want.get(k):
            parts.append("%s: incremental=%s clean=%s" % (k or ".", got.get(k), want.get(k)))
    return "%s: %s" % (path, "; ".join(parts[:6]))


# ------------------------------------------------------------------------------------------------
# Edit operations on a spec. Each returns a short description or None if not applicable.


def _genrules(spec):
    return [(p, t) for p, t in rs.all_targets(spec) if t["kind"] == "genrule"]


def op_edit_content(rng, spec):
    cands = [(p, f) for p in sorted(spec["pkgs"]) for f in sorted(spec["pkgs"][p]["files"])]
    if not cands:
        return None
    # editing the same file repeatedly, and files that reach their consumers through a filegroup, are
    # over-represented: hash records attached to an inode survive the first edit, not the second
    again = [c for c in cands if list(c) in spec.get("_edited", [])]
    viafg = [(p, s[2:]) for p, t in rs.all_targets(spec) if t["kind"] == "filegroup" for s in t["srcs"] if s.startswith("f:")]
    if again and rng.chance(0.5):
        p, f = rng.choice(again)
    elif viafg and rng.chance(0.4):
        p, f = rng.choice(viafg)
    else:
        p, f = rng.choice(cands)
    spec["pkgs"][p]["files"][f] = "edited %d\n" % rng.intn(100000)
    spec.setdefault("_edited", [])
    if [p, f] not in spec["_edited"]:
        spec["_edited"].append([p, f])
    return "edit %s/%s" % (p, f)


def op_change_salt(rng, spec):
    g = _genrules(spec)
    if not g:
        return None
    p, t = rng.choice(g)
    t["salt"] = "s%d" % rng.intn(100000)
    return "salt %s" % rs.label(p, t["name"])


def op_add_src(rng, spec):
    g = _genrules(spec)
    if not g:
        return None
    p, t = rng.choice(g)
    fn = "%s_x%d.txt" % (t["name"], rng.intn(1000))
    spec["pkgs"][p]["files"][fn] = "added %d\n" % rng.intn(1000)
    t["srcs"].append("f:" + fn)
    return "add src %s to %s" % (fn, rs.label(p, t["name"]))


def op_remove_src(rng, spec):
    g = [(p, t) for p, t in _genrules(spec) if any(s.startswith("f:") for s in t["srcs"])]
    if not g:
        return None
    p, t = rng.choice(g)
    fs = [s for s in t["srcs"] if s.startswith("f:")]
    s = rng.choice(fs)
    t["srcs"].remove(s)
    # the file stays on disk unless nothing else uses it
    if not any(s in t2["srcs"] for _, t2 in rs.all_targets(spec)):
        spec["pkgs"][p]["files"].pop(s[2:], None)
    return "remove src %s from %s" % (s[2:], rs.label(p, t["name"]))


def op_rename_out(rng, spec):
    """Renames a genrule's (file) output; content stays the same except for the name line."""
    g = [(p, t) for p, t in _genrules(spec) if t.get("dir") is None]
    if not g:
        return None
    anon = [(p, t) for p, t in g if t.get("anon")]
    # (a rename that leaves the bytes untouched is the interesting half: only the name tells the difference)
    p, t = rng.choice(anon) if anon and rng.chance(0.6) else rng.choice(g)
    i = rng.intn(len(t["outs"]))
    old = t["outs"][i]
    t["outs"][i] = "%s_r%d.out" % (t["name"], rng.intn(1000))
    return "rename out %s -> %s of %s" % (old, t["outs"][i], rs.label(p, t["name"]))


def op_dir_rename(rng, spec):
    """Renames an entry inside a directory output (same bytes, different name)."""
    g = [(p, t) for p, t in _genrules(spec) if t.get("dir")]
    if not g:
        return None
    p, t = rng.choice(g)
    ents = [e for e in t["dir"] if ("c" in e or e.get("d")) and e["p"] != "@name"]
    if not ents:
        return None
    empties = [e for e in ents if e.get("d")]
    # (an empty directory is an entry too: its name is all there is to see of it)
    e = rng.choice(empties) if empties and rng.chance(0.5) else rng.choice(ents)
    old = e["p"]
    d = os.path.dirname(old)
    e["p"] = (d + "/" if d else "") + "rn%d" % rng.intn(1000)
    for o in t["dir"]:
        if o.get("l") == old:
            o["l"] = e["p"]
    return "rename %s -> %s inside dir output of %s" % (old, e["p"], rs.label(p, t["name"]))


def op_env_change(rng, spec):
    g = _genrules(spec)
    if not g:
        return None
    p, t = rng.choice(g)
    t["envvars"] = ["A", "B"]
    if not t.get("env"):
        t["env"] = {"A": "1", "B": "2"}
        return "env set on %s" % rs.label(p, t["name"])
    if t["env"] == {"A": "1", "B": "2"}:
        t["env"] = {"A": "1B=2"}  # boundary shift: same concatenation without delimiters
        return "env boundary shift on %s" % rs.label(p, t["name"])
    k = sorted(t["env"])[0]
    t["env"][k] = "v%d" % rng.intn(1000)
    return "env value change on %s" % rs.label(p, t["name"])


def op_toggle_binary(rng, spec):
    g = _genrules(spec)
    if not g:
        return None
    p, t = rng.choice(g)
    t["binary"] = not t.get("binary")
    return "binary=%s on %s" % (t["binary"], rs.label(p, t["name"]))


def op_add_dep(rng, spec):
    ts = rs.all_targets(spec)
    g = _genrules(spec)
    if not g or len(ts) < 2:
        return None
    p, t = rng.choice(g)
    me = int(t["name"][1:])
    cands = [(dp, dt) for dp, dt in ts if dt["name"].startswith("t") and dt["name"][1:].isdigit() and int(dt["name"][1:]) < me
             and ("t:" + rs.label(dp, dt["name"])) not in t["srcs"]]
    if not cands:
        return None
    dp, dt = rng.choice(cands)
    t["srcs"].append("t:" + rs.label(dp, dt["name"]))
    return "add dep %s to %s" % (rs.label(dp, dt["name"]), rs.label(p, t["name"]))


def op_remove_dep(rng, spec):
    g = [(p, t) for p, t in _genrules(spec) if any(s.startswith("t:") for s in t["srcs"])]
    if not g:
        return None
    p, t = rng.choice(g)
    s = rng.choice([s for s in t["srcs"] if s.startswith("t:")])
    t["srcs"].remove(s)
    return "remove dep %s from %s" % (s[2:], rs.label(p, t["name"]))


def op_text_change(rng, spec):
    g = [(p, t) for p, t in rs.all_targets(spec) if t["kind"] == "text_file"]
    if not g:
        return None
    p, t = rng.choice(g)
    t["content"] = "text changed %d\n" % rng.intn(100000)
    return "text_file content %s" % rs.label(p, t["name"])


def op_quiet_salt(rng, spec):
    """Changes a command without changing what it writes (dependants must not re-run)."""
    g = _genrules(spec)
    if not g:
        return None
    p, t = rng.choice(g)
    t["quiet"] = "q%d" % rng.intn(100000)
    return "quiet cmd change %s" % rs.label(p, t["name"])


def op_add_target(rng, spec):
    """Adds a genrule (sometimes in a new package) consuming existing targets."""
    ts = rs.all_targets(spec)
    nums = [int(t["name"][1:]) for _, t in ts if t["name"][1:].isdigit()]
    n = max(nums + [0]) + 1
    free = [p for p in rs.PKG_POOL if p not in spec["pkgs"]]
    if free and rng.chance(0.3):
        pkg = rng.choice(free)
        spec["pkgs"][pkg] = {"files": {}, "targets": [], "use_defs": False}
    else:
        pkg = rng.choice(sorted(spec["pkgs"]))
    name = "t%d" % n
    t = {"name": name, "kind": "genrule", "srcs": [], "deps": [], "outs": [name + ".out"], "salt": "new%d" % rng.intn(1000), "dir": None,
         "binary": False, "env": {}, "pass_env": [], "labels": [], "fail": False, "requires": [], "provides": {}, "content": None, "named_srcs": False}
    fn = "%s_s0.txt" % name
    spec["pkgs"][pkg]["files"][fn] = "src %s\n" % name
    t["srcs"].append("f:" + fn)
    for dp, dt in rng.sample(ts, min(len(ts), rng.rng(0, 2))):
        if dt["kind"] != "gentest":
            t["srcs"].append("t:" + rs.label(dp, dt["name"]))
    spec["pkgs"][pkg]["targets"].append(t)
    return "add target %s" % rs.label(pkg, name)


def op_remove_target(rng, spec):
    """Removes a target nothing depends on."""
    ts = rs.all_targets(spec)
    used = set()
    for p, t in ts:
        for d in rs.direct_deps(spec, p, t):
            used.add(d)
    cands = [(p, t) for p, t in ts if rs.label(p, t["name"]) not in used]
    if len(ts) < 3 or not cands:
        return None
    p, t = rng.choice(cands)
    spec["pkgs"][p]["targets"].remove(t)
    for s in t["srcs"]:
        if s.startswith("f:") and not any(s in t2["srcs"] for _, t2 in rs.all_targets(spec)):
            spec["pkgs"][p]["files"].pop(s[2:], None)
    if not spec["pkgs"][p]["targets"] and len(spec["pkgs"]) > 1:
        del spec["pkgs"][p]
    return "remove target %s" % rs.label(p, t["name"])


def op_dir_add_entry(rng, spec):
    """Adds or removes an entry of a directory output."""
    g = [(p, t) for p, t in _genrules(spec) if t.get("dir")]
    if not g:
        return None
    p, t = rng.choice(g)
    if len(t["dir"]) > 1 and rng.chance(0.4):
        e = t["dir"].pop(rng.intn(len(t["dir"])))
        t["dir"] = [o for o in t["dir"] if o.get("l") != e["p"]]
        return "remove entry %s from dir output of %s" % (e["p"], rs.label(p, t["name"]))
    n = "extra%d" % rng.intn(1000)
    if rng.chance(0.3):
        t["dir"].append({"p": rng.choice(["", "sub/", "sub/deep/"]) + n, "d": True})
        return "add empty directory %s to dir output of %s" % (n, rs.label(p, t["name"]))
    t["dir"].append({"p": rng.choice(["", "sub/", "sub/deep/"]) + n, "c": "added %d" % rng.intn(1000), "x": False})
    return "add entry %s to dir output of %s" % (n, rs.label(p, t["name"]))


def op_edit_content_len(rng, spec):
    """Content edit that changes the file's length a lot (shorter or longer)."""
    cands = [(p, f) for p in sorted(spec["pkgs"]) for f in sorted(spec["pkgs"][p]["files"])]
    if not cands:
        return None
    p, f = rng.choice(cands)
    spec["pkgs"][p]["files"][f] = ("L%d " % rng.intn(1000)) * rng.choice([1, 1, 40, 200]) + "\n"
    return "edit %s/%s (new length %d)" % (p, f, len(spec["pkgs"][p]["files"][f]))


EDIT_OPS = [op_edit_content, op_edit_content, op_change_salt, op_add_src, op_remove_src, op_rename_out, op_dir_rename, op_dir_rename,
            op_env_change, op_toggle_binary, op_add_dep, op_remove_dep, op_text_change, op_quiet_salt, op_add_target, op_remove_target]
