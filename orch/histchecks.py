"""History-space checks: C01 (incremental == clean), C02 (cache restore == build), C03 (no-op / cut-off)."""
import json, os, shutil

import histlib as hl
import repospec as rs
import simlib
from framework import CaseResult, Violation, sig
from schedchecks import pick_request, request_closure, cmd_targets
from simlib import Rng, subseed

HASHES = ["sha1", "sha256", "blake3", "xxhash", "crc32", "crc64"]


def gen_history(seed, tier, cache=False, nsteps=(2, 6)):
    rng = Rng(seed)
    spec = rs.gen_repo(rng, n_targets=(3, 10), n_pkgs=(1, 3), dep_density=0.6, use_defs_p=0.2, max_fanin=5, env_p=0.15)
    spec["config"]["hash"] = rng.choice(HASHES)
    spec["config"]["xattrs"] = rng.chance(0.75)
    if cache:
        spec["config"]["cache"] = "@CACHE@"
        spec["config"]["dircompress"] = rng.chance(0.5)
        spec["config"]["cache_workers"] = rng.choice([0, 0, 2])
    req = pick_request(rng, spec)
    states = [rs.clone(spec)]
    steps = []
    n = rng.rng(*nsteps)
    cur = rs.clone(spec)
    for i in range(n):
        r = rng.intn(100)
        if cache and r < 30:
            steps.append({"kind": "rm-plz-out", "desc": "rm -rf plz-out", "state": len(states) - 1})
            continue
        if r < 12 and len(states) > 1:
            k = rng.intn(len(states))
            cur = rs.clone(states[k])
            states.append(rs.clone(cur))
            steps.append({"kind": "edit", "desc": "revert to state %d" % k, "state": len(states) - 1})
            continue
        if r < 18:
            steps.append({"kind": "rm-plz-out", "desc": "rm -rf plz-out", "state": len(states) - 1})
            continue
        if r < 24:
            steps.append({"kind": "touch", "desc": "rewrite every source file with identical bytes", "state": len(states) - 1})
            continue
        desc = None
        for _ in range(6):
            op = rng.choice(hl.EDIT_OPS)
            nxt = rs.clone(cur)
            desc = op(rng, nxt)
            if desc:
                cur = nxt
                break
        if not desc:
            continue
        states.append(rs.clone(cur))
        steps.append({"kind": "edit", "desc": desc, "state": len(states) - 1})
    threads = rng.choice([1, 2, 4, 8])
    return {"states": states, "steps": steps, "req": req, "threads": threads, "seed": seed}


def resolve_cache(spec, world):
    if spec["config"].get("cache") == "@CACHE@":
        s = rs.clone(spec)
        s["config"]["cache"] = world.sc.path("cache")
        return s
    return spec


def apply_step(world, hist, step):
    spec = resolve_cache(hist["states"][step["state"]], world)
    if step["kind"] == "rm-plz-out":
        shutil.rmtree(os.path.join(world.repo, "plz-out"), ignore_errors=True)
    elif step["kind"] == "touch":
        for rel in sorted(world.prev_files or {}):
            if rel.endswith(".txt"):
                p = os.path.join(world.repo, rel)
                data = open(p, "rb").read()
                os.remove(p)
                with open(p, "wb") as f:
                    f.write(data)
    world.write(spec)
    return spec


def exec_history_c01(bindir, hist, check_noop=False, c03=False):
    """Runs the history; returns (violations [(cls, detail, step_index)], stats, sigs)."""
    out = []
    w = hl.World(bindir, "c01")
    try:
        args = ["build"] + hist["req"] + hl.BASE_ARGS + ["-n", str(hist["threads"])]
        last_built = {}   # label -> inputs digest at the time its command last ran
        spec = resolve_cache(hist["states"][0], w)
        w.write(spec)
        seq = [{"kind": "initial", "desc": "initial build", "state": 0}] + hist["steps"]
        for i, step in enumerate(seq):
            if i > 0:
                spec = apply_step(w, hist, step)
            labs = request_closure(spec, hist["req"])
            clean = w.clean_build(spec, hist["req"], all_labels=labs if c03 else None)
            res, log = w.plz(args, subseed(hist["seed"], "inv%d" % i))
            if res.exit == simlib.EXIT_HANG:
                out.append(("hang", "incremental build did not terminate: %s" % res.sim_fail, i))
                break
            if (res.exit == 0) != (clean["exit"] == 0):
                out.append(("exit-mismatch", "step %d (%s): incremental build exited %d, clean build of the same tree exited %d; incremental stderr: %s; clean stderr: %s" % (i, step["desc"], res.exit, clean["exit"], res.stderr[-500:], clean["stderr"][-500:]), i))
                break
            if res.exit == 0:
                diffs, kinds = w.compare_outputs(clean)
                if diffs:
                    cls = "stale-output"
                    if kinds == {"execbit"}:
                        cls = "stale-execbit"  # contents and names agree, only executable bits differ
                    out.append((cls, "step %d (%s): outputs differ from a clean build of the same tree: %s" % (i, step["desc"], " | ".join(diffs[:3])), i))
                    break
                inc_paths = sorted(set(l.strip() for l in res.stdout.splitlines() if l.strip().startswith("plz-out/")))
                if inc_paths != clean["stdout_paths"]:
                    out.append(("output-list-differs", "step %d (%s): incremental build lists outputs %s, clean build lists %s" % (i, step["desc"], inc_paths, clean["stdout_paths"]), i))
                    break
            ran = [l[1] for l in log if l[0] == "S"]
            if step["kind"] == "rm-plz-out" and spec["config"].get("cache") and res.exit == 0:
                cmds = cmd_targets(spec)
                w.stats["targets_restored_from_cache"] = w.stats.get("targets_restored_from_cache", 0) + len([l for l in labs if l in cmds and l not in ran])
                w.stats["builds_after_rm_plz_out_with_cache"] = w.stats.get("builds_after_rm_plz_out_with_cache", 0) + 1
            w.stats["commands_run"] = w.stats.get("commands_run", 0) + len(ran)
            if c03 and res.exit == 0 and clean["exit"] == 0:
                files = rs.render_files(spec, w.log)
                for lab in labs:
                    dg = inputs_digest(spec, lab, clean, files)
                    if lab in ran:
                        if step["kind"] != "rm-plz-out" and lab in last_built and last_built[lab] == dg:
                            out.append(("reran-unchanged", "step %d (%s): the command of %s ran again although neither its definition nor the content of any input changed since it was last built" % (i, step["desc"], lab), i))
                        last_built[lab] = dg
                    elif step["kind"] == "rm-plz-out":
                        last_built.pop(lab, None)
                if out:
                    break
            if check_noop and res.exit == 0:
                res2, log2 = w.plz(args, subseed(hist["seed"], "noop%d" % i))
                ran2 = [l[1] for l in log2 if l[0] == "S"]
                if ran2:
                    out.append(("noop-ran-commands", "step %d (%s): an immediate second `plz build` of the unchanged tree ran commands: %s" % (i, step["desc"], ran2), i))
                    break
                if res2.exit != 0:
                    out.append(("noop-failed", "step %d: the no-op build exited %d: %s" % (i, res2.exit, res2.stderr[-400:]), i))
                    break
        return out, w.stats, w.sigs
    finally:
        w.close()


def inputs_digest(spec, lab, clean, files):
    """Digest of everything that may legitimately make lab's command run: its rendered definition,
    the configuration, its source files' bytes and its dependencies' output contents."""
    import hashlib
    h = hashlib.sha256()
    if lab == "//defs:gen":
        h.update(files.get("defs/BUILD", b"") + files.get("defs/d.build_defs.in", b"") + files.get(".plzconfig", b""))
        return h.hexdigest()[:20]
    ft = rs.find_target(spec, lab)
    if ft is None:
        return "none"
    pkg, t = ft
    h.update(files.get(".plzconfig", b""))
    pk = spec["pkgs"][pkg]
    h.update(rs.render_target(pkg, t, "LOG", spec.get("defs") and pk.get("use_defs")).encode())
    if spec.get("defs") and pk.get("use_defs"):
        h.update(clean["content"].get("//defs:gen", "").encode())
    for s in t["srcs"] + (t.get("data") or []):
        if s.startswith("f:"):
            h.update(("F " + s[2:] + " ").encode() + files.get(pkg + "/" + s[2:], b""))
        else:
            h.update(("T " + s[2:] + " " + clean["content"].get(rs.norm_label(pkg, s[2:]), "?")).encode())
    for d in (t.get("deps") or []) + (t.get("tools") or []):
        h.update(("D " + d + " " + clean["content"].get(rs.norm_label(pkg, d), "?")).encode())
    return h.hexdigest()[:20]


def minimise_history(bindir, hist, cls, runner):
    """Drops steps one at a time while the same violation class persists."""
    cur = hist
    i = 0
    budget = 12
    while i < len(cur["steps"]) and budget > 0:
        trial = json.loads(json.dumps(cur))
        del trial["steps"][i]
        budget -= 1
        try:
            vs, _, _ = runner(bindir, trial)
        except simlib.Infra:
            vs = []
        if any(v[0] == cls for v in vs):
            cur = trial
        else:
            i += 1
    return cur


def _case(bindir, seed, index, tier, gen, runner, sample_fn=None):
    r = CaseResult()
    hist = gen(seed, tier)
    vs, stats, sigs = runner(bindir, hist)
    r.evals = stats["invocations"] + stats["clean_builds"]
    r.stats = stats
    r.stats["histories"] = 1
    r.stats["history_steps"] = len(hist["steps"])
    r.sigs = [sig(seed, len(hist["steps"]))] if len(hist["steps"]) >= 2 else []
    if index < 3:
        r.sample = {"request": hist["req"], "steps": [s["desc"] for s in hist["steps"]], "targets": [rs.label(p, t["name"]) + ":" + t["kind"] for p, t in rs.all_targets(hist["states"][0])]}
    for (c, d, i) in vs[:1]:
        small = minimise_history(bindir, hist, c, runner)
        v = Violation(c, d, {"engine": "histsim", "history": small})
        fid = FINDING_BY_CLASS.get(c)
        if fid:
            r.pending_known.append((fid, c, d))
            r.tagged.append((fid, v))
        else:
            r.violations.append(v)
    return r


# violation classes that are exactly one recorded finding (see known-findings.txt)
FINDING_BY_CLASS = {"stale-execbit": "C01-exec-bit-not-hashed"}


def run_c01(bindir, hist):
    return exec_history_c01(bindir, hist)


def case_c01(bindir, seed, index, tier, extra):
    return _case(bindir, seed, index, tier, lambda s, t: gen_history(s, t), run_c01)


def replay_c01(bindir, rp):
    vs, _, _ = run_c01(bindir, rp["history"])
    return [(c, d) for (c, d, i) in vs]


def run_c02(bindir, hist):
    return exec_history_c01(bindir, hist)


def case_c02(bindir, seed, index, tier, extra):
    return _case(bindir, seed, index, tier, lambda s, t: gen_history(s, t, cache=True, nsteps=(3, 7)), run_c02)


def replay_c02(bindir, rp):
    vs, _, _ = run_c02(bindir, rp["history"])
    return [(c, d) for (c, d, i) in vs]


def run_c03(bindir, hist):
    return exec_history_c01(bindir, hist, check_noop=True, c03=True)


def case_c03(bindir, seed, index, tier, extra):
    return _case(bindir, seed, index, tier, lambda s, t: gen_history(s, t), run_c03)


def replay_c03(bindir, rp):
    vs, _, _ = run_c03(bindir, rp["history"])
    return [(c, d) for (c, d, i) in vs]
