"""History-space checks: C01 (incremental == clean), C02 (cache restore == build), C03 (no-op / cut-off)."""
import json, os, shutil

import histlib as hl
import repospec as rs
import simlib
from framework import CaseResult, Violation, sig
from schedchecks import pick_request, request_closure, cmd_targets
from simlib import Rng, subseed

HASHES = ["sha1", "sha256", "blake3", "xxhash", "crc32", "crc64"]


def gen_history(seed, tier, cache=False, nsteps=(2, 6), multi_out_p=0.25, tpl_p=0.25):
    if subseed(seed, "directed") % 8 == 0:
        return gen_history_dirshape(seed, cache)
    rng = Rng(seed)
    spec = rs.gen_repo(rng, n_targets=(3, 10), n_pkgs=(1, 3), dep_density=0.6, use_defs_p=0.2, max_fanin=5, env_p=0.15,
                       subdir_out_p=0.3 if cache else 0.1, dir_p=0.35 if cache else 0.15, multi_out_p=multi_out_p)
    spec["config"]["hash"] = rng.choice(HASHES)
    spec["config"]["xattrs"] = rng.chance(0.75)
    if cache:
        spec["config"]["cache"] = "@CACHE@"
        spec["config"]["dircompress"] = rng.chance(0.3)   # the default (hard-linked, xattrs travel with the inode) is sampled most
        spec["config"]["cache_workers"] = rng.choice([0, 0, 2])
    req = pick_request(rng, spec)
    ro = Rng(subseed(seed, "optlog"))
    for _, t in rs.all_targets(spec):
        if t["kind"] == "genrule" and t.get("dir") is None and ro.chance(0.3 if cache else 0.15):
            t["optlog"] = True
            t["optional_outs"] = ["*.optlog"]
        if t["kind"] == "genrule" and t.get("dir") is None and len(t["outs"]) == 1 and ro.chance(0.35):
            t["anon"] = True
    reedit = None
    if rng.chance(0.3):
        # a source file that reaches a command only through a filegroup, edited several times in a row
        pkg = rng.choice(sorted(spec["pkgs"]))
        k = max([int(t["name"][1:]) for _, t in rs.all_targets(spec) if t["name"][1:].isdigit()] + [0]) + 1
        spec["pkgs"][pkg]["files"]["fgsrc%d.txt" % k] = "fg v0\n"
        base = {"deps": [], "salt": "f", "dir": None, "binary": False, "env": {}, "pass_env": [], "labels": [], "fail": False, "requires": [], "provides": {}, "content": None, "named_srcs": False}
        spec["pkgs"][pkg]["targets"].append(dict(base, name="t%d" % k, kind="filegroup", srcs=["f:fgsrc%d.txt" % k], outs=[]))
        spec["pkgs"][pkg]["targets"].append(dict(base, name="t%d" % (k + 1), kind="genrule", srcs=["t:" + rs.label(pkg, "t%d" % k)], outs=["t%d.out" % (k + 1)]))
        req = list(req) + [rs.label(pkg, "t%d" % (k + 1))] if req != ["//..."] else req
        reedit = (pkg, "fgsrc%d.txt" % k)
    states = [rs.clone(spec)]
    steps = []
    n = rng.rng(*nsteps)
    cur = rs.clone(spec)
    if cache and rng.chance(tpl_p):
        tpl = restore_under_template(rng, spec, states, steps)
        if tpl:
            cur, user = tpl
            n = rng.rng(0, 2)
            if req != ["//..."] and user not in req:
                req = list(req) + [user]
    aba = cache and rng.chance(0.4)   # tree goes A, B, A, C, A ...: restores over outputs of another state
    for i in range(n):
        r = rng.intn(100)
        if aba and i % 2 == 1 and len(states) > 1:
            k = rng.intn(len(states) - 1)
            cur = rs.clone(states[k])
            states.append(rs.clone(cur))
            if rng.chance(0.35):
                # (the way back with plz-out gone: everything comes from the cache, nothing lingers)
                steps.append({"kind": "rm-plz-out", "desc": "rm -rf plz-out and revert to state %d" % k, "state": len(states) - 1})
            else:
                steps.append({"kind": "edit", "desc": "revert to state %d" % k, "state": len(states) - 1})
            continue
        if aba:
            r = 50 + rng.intn(50)    # an edit, not a deletion
        if cache and len(states) > 1 and rng.chance(0.4):
            # partial revert: some source files and target definitions go back to what they were in an
            # earlier state while the rest of the tree keeps its present form, so some targets come from
            # the cache, over outputs of another state, and their dependants have to be built
            mixed = mixed_state(rng, cur, states[rng.intn(len(states) - 1)])
            if mixed:
                cur, what = mixed
                states.append(rs.clone(cur))
                steps.append({"kind": "edit", "desc": "revert only %s to an earlier state" % what, "state": len(states) - 1})
                continue
        if cache and r < 15:
            steps.append({"kind": "rm-plz-out", "desc": "rm -rf plz-out", "state": len(states) - 1})
            continue
        if r < (40 if cache else 12) and len(states) > 1:
            k = rng.intn(len(states))
            cur = rs.clone(states[k])
            states.append(rs.clone(cur))
            steps.append({"kind": "edit", "desc": "revert to state %d" % k, "state": len(states) - 1})
            continue
        if r < 18:
            steps.append({"kind": "rm-plz-out", "desc": "rm -rf plz-out", "state": len(states) - 1})
            continue
        if r < 24:
            steps.append({"kind": "touch", "desc": "rewrite every source file with identical bytes", "state": len(states) - 1})
            continue
        if reedit and rng.chance(0.6):
            cur = rs.clone(cur)
            cur["pkgs"][reedit[0]]["files"][reedit[1]] = "fg v%d\n" % (i + 1)
            states.append(rs.clone(cur))
            steps.append({"kind": "edit", "desc": "edit %s/%s again" % reedit, "state": len(states) - 1})
            continue
        desc = None
        for _ in range(6):
            op = rng.choice(hl.EDIT_OPS + ([hl.op_dir_rename, hl.op_dir_add_entry, hl.op_edit_content_len] * 2 if cache else [hl.op_dir_add_entry, hl.op_edit_content_len]))
            nxt = rs.clone(cur)
            desc = op(rng, nxt)
            if desc:
                cur = nxt
                break
        if not desc:
            continue
        states.append(rs.clone(cur))
        steps.append({"kind": "edit", "desc": desc, "state": len(states) - 1})
    threads = rng.choice([1, 2, 4, 8])
    h = {"states": states, "steps": steps, "req": req, "threads": threads, "seed": seed, "inplace": rng.chance(0.5),
         "two_checkouts": bool(cache and rng.chance(0.3))}
    rng2 = Rng(subseed(seed, "first-req"))
    if rng2.chance(0.35):
        # the initial build asks for one target of the closure only: the rest is first built in a later
        # state, so after a return to state 0 part of the tree comes from the cache and part does not
        labs = [l for l in request_closure(spec, req) if not l.startswith("//defs:")]
        if labs:
            h["first_req"] = [rng2.choice(sorted(labs))]
    return h


def gen_history_dirshape(seed, cache):
    """Directed history: one directory output consumed by a command and re-exported by a filegroup; each
    step changes exactly one entry of it, going through the kinds of entry (file, nested file, empty
    directory, relative symlink) and the kinds of change (add, rename, remove, retarget)."""
    rng = Rng(subseed(seed, "dirshape"))
    spec = rs.new_spec()
    spec["config"]["hash"] = rng.choice(HASHES)
    spec["config"]["xattrs"] = rng.chance(0.75)
    if cache:
        spec["config"]["cache"] = "@CACHE@"
        spec["config"]["dircompress"] = rng.chance(0.3)
        spec["config"]["cache_workers"] = rng.choice([0, 0, 2])
    base = {"deps": [], "salt": "d", "dir": None, "binary": False, "env": {}, "pass_env": [], "labels": [], "fail": False, "requires": [], "provides": {}, "content": None, "named_srcs": False}
    layout = [{"p": "f0", "c": "lit f0", "x": False}, {"p": "sub/f1", "c": "lit f1", "x": False}, {"p": "e0", "d": True}, {"p": "sub/e1", "d": True}, {"p": "ln0", "l": "f0"}]
    spec["pkgs"]["p"] = {"files": {"s.txt": "src\n"}, "use_defs": False, "targets": [
        dict(base, name="t0", kind="genrule", srcs=["f:s.txt"], outs=["t0_d"], dir=layout),
        dict(base, name="t1", kind="genrule", srcs=["t://p:t0"], outs=["t1.out"]),
        dict(base, name="t2", kind="filegroup", srcs=["t://p:t0"], outs=[]),
        dict(base, name="t3", kind="genrule", srcs=["t://p:t2"], outs=["t3.out"]),
    ]}
    states = [rs.clone(spec)]
    steps = []
    cur = rs.clone(spec)
    n = 0

    def lay(sp):
        return sp["pkgs"]["p"]["targets"][0]["dir"]

    moves = ["rename-empty", "add-empty", "remove-empty", "rename-file", "add-nested", "remove-file", "add-link", "retarget-link", "remove-link", "revert", "rm-plz-out"]
    for i in range(rng.rng(4, 7)):
        m = rng.choice(moves)
        nxt = rs.clone(cur)
        L = lay(nxt)
        n += 1
        desc = None
        empties = [e for e in L if e.get("d")]
        files = [e for e in L if "c" in e]
        links = [e for e in L if "l" in e]
        if m == "rename-empty" and empties:
            e = rng.choice(empties)
            old = e["p"]
            e["p"] = (os.path.dirname(old) + "/" if os.path.dirname(old) else "") + "en%d" % n
            desc = "rename empty directory %s -> %s" % (old, e["p"])
        elif m == "add-empty":
            L.append({"p": rng.choice(["", "sub/", "deep/er/"]) + "ea%d" % n, "d": True})
            desc = "add empty directory %s" % L[-1]["p"]
        elif m == "remove-empty" and empties:
            e = rng.choice(empties)
            L.remove(e)
            desc = "remove empty directory %s" % e["p"]
        elif m == "rename-file" and files:
            e = rng.choice(files)
            old = e["p"]
            e["p"] = (os.path.dirname(old) + "/" if os.path.dirname(old) else "") + "fn%d" % n
            for o in L:
                if o.get("l") == old:
                    o["l"] = e["p"]
            desc = "rename file %s -> %s" % (old, e["p"])
        elif m == "add-nested":
            L.append({"p": rng.choice(["sub/", "deep/er/", "sub/more/"]) + "fa%d" % n, "c": "lit added %d" % n, "x": False})
            desc = "add file %s" % L[-1]["p"]
        elif m == "remove-file" and len(files) > 1:
            e = rng.choice(files)
            L.remove(e)
            nxt["pkgs"]["p"]["targets"][0]["dir"] = [o for o in L if o.get("l") != e["p"]]
            desc = "remove file %s" % e["p"]
        elif m == "add-link" and files:
            top = [e for e in files if "/" not in e["p"]]
            if top:
                L.append({"p": "la%d" % n, "l": rng.choice(top)["p"]})
                desc = "add symlink %s -> %s" % (L[-1]["p"], L[-1]["l"])
        elif m == "retarget-link" and links:
            top = [e for e in files if "/" not in e["p"]]
            e = rng.choice(links)
            others = [f["p"] for f in top if f["p"] != e["l"]]
            if others:
                e["l"] = rng.choice(others)
                desc = "retarget symlink %s -> %s" % (e["p"], e["l"])
        elif m == "remove-link" and links:
            e = rng.choice(links)
            L.remove(e)
            desc = "remove symlink %s" % e["p"]
        elif m == "revert" and len(states) > 1:
            k = rng.intn(len(states) - 1)
            nxt = rs.clone(states[k])
            desc = "revert to state %d" % k
        elif m == "rm-plz-out" and cache:
            steps.append({"kind": "rm-plz-out", "desc": "rm -rf plz-out", "state": len(states) - 1})
            continue
        if not desc:
            continue
        cur = nxt
        states.append(rs.clone(cur))
        steps.append({"kind": "edit", "desc": desc, "state": len(states) - 1})
    return {"states": states, "steps": steps, "req": rng.choice([["//p:t1", "//p:t3"], ["//p:all"], ["//p:t0"], ["//p:t3"]]), "threads": rng.choice([1, 2, 4, 8]),
            "seed": seed, "inplace": False, "two_checkouts": bool(cache and rng.chance(0.3))}


def restore_under_template(rng, spec, states, steps):
    """A source file of a command target goes A -> B -> A while, together with the way back, one of
    the target's dependants changes its own definition: the target comes back from the cache over
    the output of state B and the dependant has to be built against it."""
    cands = []
    for pn, t in rs.all_targets(spec):
        if t["kind"] != "genrule" or not [x for x in t["srcs"] if x.startswith("f:")]:
            continue
        lab = rs.label(pn, t["name"])
        users = [(p2, t2) for p2, t2 in rs.all_targets(spec) if t2["kind"] == "genrule" and
                 any(x.startswith("t:") and rs.norm_label(p2, x[2:]) == lab for x in t2["srcs"])]
        if users:
            cands.append((pn, t, users))
    if not cands:
        return None
    pn, t, users = rng.choice(cands)
    fn = rng.choice([x[2:] for x in t["srcs"] if x.startswith("f:")])
    b = rs.clone(spec)
    b["pkgs"][pn]["files"][fn] = "edited %d\n" % rng.intn(100000)
    states.append(rs.clone(b))
    steps.append({"kind": "edit", "desc": "edit %s/%s" % (pn, fn), "state": len(states) - 1})
    c = rs.clone(spec)
    up, ut = rng.choice(users)
    for t3 in c["pkgs"][up]["targets"]:
        if t3["name"] == ut["name"]:
            t3["salt"] = "s%d" % rng.intn(100000)
    states.append(rs.clone(c))
    steps.append({"kind": "edit", "desc": "revert %s/%s and salt %s" % (pn, fn, rs.label(up, ut["name"])), "state": len(states) - 1})
    return c, rs.label(up, ut["name"])


def mixed_state(rng, cur, old):
    """cur with a random non-empty proper subset of its differences from `old` undone (files and
    definitions of targets present in both); None if there are fewer than two differences."""
    diffs = []
    for pn, pk in sorted(cur["pkgs"].items()):
        if pn not in old["pkgs"]:
            continue
        opk = old["pkgs"][pn]
        for fn in sorted(pk["files"]):
            if fn in opk["files"] and opk["files"][fn] != pk["files"][fn]:
                diffs.append(("file", pn, fn))
        names = set(rs.label(p2, t2["name"]) for p2, t2 in rs.all_targets(cur))
        otargets = {t["name"]: t for t in opk["targets"]}
        for t in pk["targets"]:
            ot = otargets.get(t["name"])
            if ot is None or ot == t or ot["kind"] != t["kind"]:
                continue
            refs = [x[2:] for x in ot["srcs"] + (ot.get("data") or []) if x.startswith("t:")] + list(ot.get("deps") or []) + list(ot.get("tools") or []) + list((ot.get("provides") or {}).values())
            if all(rs.norm_label(pn, r) in names for r in refs):
                diffs.append(("target", pn, t["name"]))
    if len(diffs) < 2:
        return None
    k = rng.rng(1, len(diffs) - 1)
    chosen = rng.sample(diffs, k)
    new = rs.clone(cur)
    for (kind, pn, name) in chosen:
        if kind == "file":
            new["pkgs"][pn]["files"][name] = old["pkgs"][pn]["files"][name]
        else:
            ot = [t for t in old["pkgs"][pn]["targets"] if t["name"] == name][0]
            ts = new["pkgs"][pn]["targets"]
            ts[[t["name"] for t in ts].index(name)] = rs.clone(ot)
            for x in ot["srcs"] + (ot.get("data") or []):
                if x.startswith("f:") and x[2:] not in new["pkgs"][pn]["files"] and x[2:] in old["pkgs"][pn]["files"]:
                    new["pkgs"][pn]["files"][x[2:]] = old["pkgs"][pn]["files"][x[2:]]
    return new, ", ".join("%s %s/%s" % c for c in chosen[:3]) + (" ..." if len(chosen) > 3 else "")


def resolve_cache(spec, world):
    if spec["config"].get("cache") == "@CACHE@":
        s = rs.clone(spec)
        s["config"]["cache"] = world.sc.path("cache")
        return s
    return spec


def apply_step(world, hist, step):
    spec = resolve_cache(hist["states"][step["state"]], world)
    if step["kind"] == "rm-plz-out":
        shutil.rmtree(os.path.join(world.repo, "plz-out"), ignore_errors=True)
    elif step["kind"] == "touch":
        for rel in sorted(world.prev_files or {}):
            if rel.endswith(".txt"):
                p = os.path.join(world.repo, rel)
                data = open(p, "rb").read()
                os.remove(p)
                with open(p, "wb") as f:
                    f.write(data)
    world.write(spec)
    return spec


def exec_history_c01(bindir, hist, check_noop=False, c03=False):
    """Runs the history; returns (violations [(cls, detail, step_index)], stats, sigs)."""
    out = []
    w = hl.World(bindir, "c01")
    w.inplace = bool(hist.get("inplace"))
    try:
        args = ["build"] + hist["req"] + hl.BASE_ARGS + ["-n", str(hist["threads"])]
        last_built = {}   # label -> inputs digest at the time its command last ran
        spec = resolve_cache(hist["states"][0], w)
        w.write(spec)
        seq = [{"kind": "initial", "desc": "initial build", "state": 0}] + hist["steps"]
        two = bool(hist.get("two_checkouts")) and not c03
        repo2 = w.sc.path("checkout2")
        prev2 = None
        for i, step in enumerate(seq):
            if i > 0:
                spec = apply_step(w, hist, step)
            here = w.repo
            if two:
                # a second checkout of the same tree at another root shares the cache directory; builds
                # alternate between the two checkouts
                os.makedirs(repo2, exist_ok=True)
                if step["kind"] == "rm-plz-out":
                    shutil.rmtree(os.path.join(repo2, "plz-out"), ignore_errors=True)
                prev2 = rs.materialise(spec, repo2, w.log, prev2, inplace=w.inplace)
                if i % 2 == 1:
                    here = repo2
                    w.stats["builds_in_second_checkout"] = w.stats.get("builds_in_second_checkout", 0) + 1
            req_i = hist["first_req"] if (i == 0 and hist.get("first_req")) else hist["req"]
            args = ["build"] + req_i + hl.BASE_ARGS + ["-n", str(hist["threads"])]
            labs = request_closure(spec, req_i)
            clean = w.clean_build(spec, req_i, all_labels=labs if c03 else None)
            res, log = w.plz(args, subseed(hist["seed"], "inv%d" % i), cwd=here)
            if res.exit == simlib.EXIT_HANG:
                out.append(("hang", "incremental build did not terminate: %s" % res.sim_fail, i))
                break
            if (res.exit == 0) != (clean["exit"] == 0):
                out.append(("exit-mismatch", "step %d (%s): incremental build exited %d, clean build of the same tree exited %d; incremental stderr: %s; clean stderr: %s" % (i, step["desc"], res.exit, clean["exit"], res.stderr[-500:], clean["stderr"][-500:]), i))
                break
            if res.exit == 0 and not c03:
                diffs, kinds = w.compare_outputs(clean, root=here)
                if diffs:
                    cls = "stale-output"
                    if kinds == {"execbit"}:
                        cls = "stale-execbit"  # contents and names agree, only executable bits differ
                    out.append((cls, "step %d (%s): outputs differ from a clean build of the same tree: %s" % (i, step["desc"], " | ".join(diffs[:3])), i))
                    break
                inc_paths = sorted(set(l.strip() for l in res.stdout.splitlines() if l.strip().startswith("plz-out/")))
                if inc_paths != clean["stdout_paths"]:
                    out.append(("output-list-differs", "step %d (%s): incremental build lists outputs %s, clean build lists %s" % (i, step["desc"], inc_paths, clean["stdout_paths"]), i))
                    break
            ran = [l[1] for l in log if l[0] == "S"]
            if step["kind"] == "rm-plz-out" and spec["config"].get("cache") and res.exit == 0:
                cmds = cmd_targets(spec)
                w.stats["targets_restored_from_cache"] = w.stats.get("targets_restored_from_cache", 0) + len([l for l in labs if l in cmds and l not in ran])
                w.stats["builds_after_rm_plz_out_with_cache"] = w.stats.get("builds_after_rm_plz_out_with_cache", 0) + 1
            w.stats["commands_run"] = w.stats.get("commands_run", 0) + len(ran)
            if c03 and res.exit == 0 and clean["exit"] == 0:
                files = rs.render_files(spec, w.log)
                for lab in labs:
                    dg = inputs_digest(spec, lab, clean, files)
                    if lab in ran:
                        if step["kind"] != "rm-plz-out" and lab in last_built and last_built[lab] == dg:
                            out.append(("reran-unchanged", "step %d (%s): the command of %s ran again although neither its definition nor the content of any input changed since it was last built" % (i, step["desc"], lab), i))
                        last_built[lab] = dg
                    elif step["kind"] == "rm-plz-out":
                        last_built.pop(lab, None)
                if out:
                    break
            if check_noop and res.exit == 0:
                res2, log2 = w.plz(args, subseed(hist["seed"], "noop%d" % i))
                ran2 = [l[1] for l in log2 if l[0] == "S"]
                if ran2:
                    out.append(("noop-ran-commands", "step %d (%s): an immediate second `plz build` of the unchanged tree ran commands: %s" % (i, step["desc"], ran2), i))
                    break
                if res2.exit != 0:
                    out.append(("noop-failed", "step %d: the no-op build exited %d: %s" % (i, res2.exit, res2.stderr[-400:]), i))
                    break
        return out, w.stats, w.sigs
    finally:
        w.close()


def inputs_digest(spec, lab, clean, files):
    """Digest of everything that may legitimately make lab's command run: its rendered definition,
    the configuration, its source files' bytes and its dependencies' output contents."""
    import hashlib
    h = hashlib.sha256()
    if lab == "//defs:gen":
        h.update(files.get("defs/BUILD", b"") + files.get("defs/d.build_defs.in", b"") + files.get(".plzconfig", b""))
        return h.hexdigest()[:20]
    ft = rs.find_target(spec, lab)
    if ft is None:
        return "none"
    pkg, t = ft
    h.update(files.get(".plzconfig", b""))
    pk = spec["pkgs"][pkg]
    h.update(rs.render_target(pkg, t, "LOG", spec.get("defs") and pk.get("use_defs")).encode())
    if spec.get("defs") and pk.get("use_defs"):
        h.update(clean["content"].get("//defs:gen", "").encode())
    for s in t["srcs"] + (t.get("data") or []):
        if s.startswith("f:"):
            h.update(("F " + s[2:] + " ").encode() + files.get(pkg + "/" + s[2:], b""))
        else:
            h.update(("T " + s[2:] + " " + clean["content"].get(rs.norm_label(pkg, s[2:]), "?")).encode())
    for d in (t.get("deps") or []) + (t.get("tools") or []):
        h.update(("D " + d + " " + clean["content"].get(rs.norm_label(pkg, d), "?")).encode())
    return h.hexdigest()[:20]


def minimise_history(bindir, hist, cls, runner):
    """Drops steps one at a time while the same violation class persists."""
    cur = hist
    i = 0
    budget = 12
    while i < len(cur["steps"]) and budget > 0:
        trial = json.loads(json.dumps(cur))
        del trial["steps"][i]
        budget -= 1
        try:
            vs, _, _ = runner(bindir, trial)
        except simlib.Infra:
            vs = []
        if any(v[0] == cls for v in vs):
            cur = trial
        else:
            i += 1
    return cur


def _case(bindir, seed, index, tier, gen, runner, sample_fn=None):
    r = CaseResult()
    hist = gen(seed, tier)
    vs, stats, sigs = runner(bindir, hist)
    r.evals = stats["invocations"] + stats["clean_builds"]
    r.stats = stats
    r.stats["distinct_schedule_traces"] = len(set(sigs))
    r.stats["histories"] = 1
    r.stats["history_steps"] = len(hist["steps"])
    r.sigs = [sig(seed, len(hist["steps"]))] if len(hist["steps"]) >= 2 else []
    if index < 3:
        r.sample = {"request": hist["req"], "steps": [s["desc"] for s in hist["steps"]], "targets": [rs.label(p, t["name"]) + ":" + t["kind"] for p, t in rs.all_targets(hist["states"][0])]}
    for (c, d, i) in vs[:1]:
        small = minimise_history(bindir, hist, c, runner)
        v = Violation(c, d, {"engine": "histsim", "history": small})
        fid = FINDING_BY_CLASS.get(c)
        if fid:
            r.pending_known.append((fid, c, d))
            r.tagged.append((fid, v))
        else:
            r.violations.append(v)
    return r


# violation classes that are exactly one recorded finding (see known-findings.txt)
FINDING_BY_CLASS = {"stale-execbit": "C01-exec-bit-not-hashed"}


def run_c01(bindir, hist):
    return exec_history_c01(bindir, hist)


def case_c01(bindir, seed, index, tier, extra):
    return _case(bindir, seed, index, tier, lambda s, t: gen_history(s, t), run_c01)


def replay_c01(bindir, rp):
    vs, _, _ = run_c01(bindir, rp["history"])
    return [(c, d) for (c, d, i) in vs]


def run_c02(bindir, hist):
    return exec_history_c01(bindir, hist)


def case_c02(bindir, seed, index, tier, extra):
    return _case(bindir, seed, index, tier, lambda s, t: gen_history(s, t, cache=True, nsteps=(3, 7)), run_c02)


def replay_c02(bindir, rp):
    vs, _, _ = run_c02(bindir, rp["history"])
    return [(c, d) for (c, d, i) in vs]


def run_c03(bindir, hist):
    return exec_history_c01(bindir, hist, check_noop=True, c03=True)


def case_c03(bindir, seed, index, tier, extra):
    # every other case has a directory cache and histories that return to earlier states: a restore
    # from the cache must leave the same records behind as a build (the no-op probe after it runs nothing)
    return _case(bindir, seed, index, tier, lambda s, t: gen_history(s, t, cache=(subseed(s, "c03cache") % 2) == 0, nsteps=(2, 6), tpl_p=0.5), run_c03)


def replay_c03(bindir, rp):
    vs, _, _ = run_c03(bindir, rp["history"])
    return [(c, d) for (c, d, i) in vs]


# ================================================================================================
# C32: crashes never leave wrongly trusted files


def gen_history_c32(seed, tier):
    rng = Rng(seed)
    restore = rng.chance(0.35)
    hist = gen_history(seed, tier, cache=restore or rng.chance(0.2), nsteps=(1, 2), multi_out_p=0.6 if restore else 0.25)
    hist["prebuild"] = restore or rng.chance(0.7)     # a successful build of state 0 before the edits
    if restore:
        # A is built and stored, the tree moves to B and is built, then back to A: the victim build
        # restores A's artifacts from the directory cache over B's outputs, and is killed doing so
        edits = [st for st in hist["steps"] if st["kind"] == "edit" and not st["desc"].startswith("revert")][:1]
        if edits:
            edits[0]["build"] = True
            hist["states"].append(rs.clone(hist["states"][0]))
            hist["steps"] = edits + [{"kind": "edit", "desc": "revert to state 0", "state": len(hist["states"]) - 1}]
            hist["restore_variant"] = True
            if rng.chance(0.8):
                # uncompressed entries are hard links that carry the storing build's hash records with them
                for st in hist["states"]:
                    st["config"]["dircompress"] = False
                    st["config"]["xattrs"] = True
    hist["points"] = 10 if tier == "quick" else 0   # 0 = every FS operation
    hist["kill_in_cmd"] = rng.chance(0.5)
    return hist


def copy_tree(src, dst):
    shutil.rmtree(dst, ignore_errors=True)
    import subprocess
    subprocess.run(["cp", "-a", src, dst], check=True)


def exec_history_c32(bindir, hist):
    out = []
    w = hl.World(bindir, "c32")
    try:
        rng = Rng(subseed(hist["seed"], "c32"))
        args = ["build"] + hist["req"] + hl.BASE_ARGS + ["-n", str(hist["threads"])]
        spec = resolve_cache(hist["states"][0], w)
        w.write(spec)
        if hist.get("prebuild"):
            res, _ = w.plz(args, subseed(hist["seed"], "pre"))
            if res.exit != 0:
                return out, w.stats, w.sigs   # generator produced something unbuildable; nothing to check
        for si, step in enumerate(hist["steps"]):
            spec = apply_step(w, hist, step)
            if step.get("build"):
                bres, _ = w.plz(args, subseed(hist["seed"], "mid%d" % si))
                if bres.exit != 0:
                    return out, w.stats, w.sigs
        if hist.get("restore_variant"):
            w.stats["restore_variant_histories"] = w.stats.get("restore_variant_histories", 0) + 1
        clean = w.clean_build(spec, hist["req"])
        if clean["exit"] != 0:
            return out, w.stats, w.sigs
        bak = w.sc.path("bak")
        cbak = w.sc.path("cachebak")
        copy_tree(w.repo, bak)
        if os.path.isdir(w.sc.path("cache")):
            copy_tree(w.sc.path("cache"), cbak)
        vseed = subseed(hist["seed"], "victim")
        # dry run: how many mutating FS operations does the victim build perform?
        res, _ = w.plz(args, vseed)
        if res.exit != 0:
            out.append(("victim-build-failed", "the uncrashed victim build exited %d: %s" % (res.exit, res.stderr[-400:]), 0))
            return out, w.stats, w.sigs
        diffs0, _ = w.compare_outputs(clean)
        if diffs0:
            # the uncrashed incremental build already differs from a clean build: that is C01's business
            # (reported there), and says nothing about crashes
            w.stats["skipped_uncrashed_build_already_stale"] = w.stats.get("skipped_uncrashed_build_already_stale", 0) + 1
            return out, w.stats, w.sigs
        nops = int(res.stats.get("fsops", 0))
        w.stats["victim_fs_ops"] = w.stats.get("victim_fs_ops", 0) + nops
        points = list(range(1, nops + 1))
        explicit = hist.get("crash_points")
        if explicit:
            points = explicit
        elif hist.get("points"):
            # half of the sampled crash points land on operations that touch outputs or their records in
            # plz-out/gen|bin (moves, links, unlinks, xattrs), where partially updated state is created
            hot = [int(f[1]) for f in res.fsops() if len(f) > 3 and (f[3].startswith("plz-out/gen") or f[3].startswith("plz-out/bin"))]
            k = min(hist["points"], len(points))
            if hist.get("restore_variant"):
                # a restore runs no commands and is cheap: take every output-touching operation (up to 60)
                chosen = set(rng.sample(hot, min(60, len(hot)))) if hot else set()
            else:
                chosen = set(rng.sample(hot, min(k // 2 + 2, len(hot)))) if hot else set()
            rest = [n for n in points if n not in chosen]
            chosen |= set(rng.sample(rest, min(max(0, k - len(chosen)) + 2, len(rest))))
            points = sorted(chosen)
        plans = [("fs", n) for n in points]
        # crash from inside a running command (after its first output was written)
        if hist.get("kill_in_cmd") and not explicit:
            cands = [l for l in clean["ran"]]
            if cands:
                plans.append(("cmd", rng.choice(sorted(cands))))
        if hist.get("cmd_kill"):
            plans = [("cmd", hist["cmd_kill"])]
        for kind, arg in plans:
            copy_tree(bak, w.repo)
            w.prev_files = None
            if os.path.isdir(cbak):
                copy_tree(cbak, w.sc.path("cache"))
            else:
                shutil.rmtree(w.sc.path("cache"), ignore_errors=True)  # the dry run may have created it
            faults = None
            if kind == "fs":
                faults = [{"Kind": "crash", "At": arg, "Arg": "" if rng.chance(0.7) else "notear"}]
                cres, _ = w.plz(args, vseed, faults=faults)
            else:
                # re-render the tree with the trigger wired into that target's command
                ks = rs.clone(spec)
                ft = rs.find_target(ks, arg)
                if ft is None or ft[1]["kind"] != "genrule" or ft[1].get("dir") is not None or len(ft[1]["outs"]) < 1:
                    continue
                kf = w.sc.path("KILLME")
                ft[1]["killfile"] = kf
                # the command text changes, so take a new reference and a new baseline for this variant
                rs.materialise(ks, w.repo, w.log, None)
                open(kf, "w").close()
                cres, _ = w.plz(args, vseed)
                clean_k = w.clean_build(ks, hist["req"])
                if os.path.exists(kf):
                    os.remove(kf)   # the target was not rebuilt in this run; nothing was injected
                    continue
            if cres.exit != -9:
                if kind == "fs":
                    # the run finished before op n (schedule-identical runs should not): infrastructure problem
                    raise simlib.Infra("crash point %s not reached (exit %s)" % (arg, cres.exit))
                continue
            w.stats["crashes_injected"] = w.stats.get("crashes_injected", 0) + 1
            w.stats["crash_kind_" + kind] = w.stats.get("crash_kind_" + kind, 0) + 1
            if any(l.startswith("W torn") for l in cres.trace_lines()[-30:]):
                w.stats["torn_writes"] = w.stats.get("torn_writes", 0) + 1
            ref = clean if kind == "fs" else clean_k
            rres, rlog = w.plz(args, subseed(hist["seed"], "recover-%s-%s" % (kind, arg)))
            where = "SIGKILL before FS operation %s of %d (%s)" % (arg, nops, (cres.killed_at or "").strip()) if kind == "fs" else "SIGKILL from inside the command of %s after its first output" % arg
            rp = {"crash_points": [arg]} if kind == "fs" else {"cmd_kill": arg}
            if rres.exit == simlib.EXIT_HANG:
                out.append(("hang-after-crash", "%s: the next build did not terminate" % where, rp))
                break
            if rres.exit != 0:
                out.append(("build-fails-after-crash", "%s: the next build exited %d: %s" % (where, rres.exit, rres.stderr[-600:]), rp))
                break
            saved = w.repo
            diffs, kinds = w.compare_outputs(ref)
            if diffs:
                out.append(("stale-after-crash", "%s: after the next build the outputs differ from a clean build: %s" % (where, " | ".join(diffs[:3])), rp))
                break
            nres, nlog = w.plz(args, subseed(hist["seed"], "noop-%s-%s" % (kind, arg)))
            ran = [l[1] for l in nlog if l[0] == "S"]
            if nres.exit != 0 or ran:
                out.append(("not-converged-after-crash", "%s: a third build of the unchanged tree exited %d and ran %s" % (where, nres.exit, ran), rp))
                break
            w.sigs.append("%s/%s/%s" % (hist["seed"], kind, arg))
        return out, w.stats, w.sigs
    finally:
        w.close()


def case_c32(bindir, seed, index, tier, extra):
    r = CaseResult()
    hist = gen_history_c32(seed, tier)
    vs, stats, sigs = exec_history_c32(bindir, hist)
    r.evals = stats["invocations"] + stats["clean_builds"]
    r.stats = stats
    r.sigs = [s for s in sigs if "/" in str(s)]
    if index < 2:
        r.sample = {"request": hist["req"], "prebuild": hist["prebuild"], "steps": [s["desc"] for s in hist["steps"]], "victim_fs_ops": stats.get("victim_fs_ops")}
    for (c, d, rp) in vs[:1]:
        h2 = json.loads(json.dumps(hist))
        if isinstance(rp, dict):
            h2.update(rp)
        r.violations.append(Violation(c, d, {"engine": "histsim+crashfs", "history": h2}))
    return r


def replay_c32(bindir, rp):
    vs, _, _ = exec_history_c32(bindir, rp["history"])
    return [(c, d) for (c, d, i) in vs]


# ================================================================================================
# C10: hermetic, fully hashed environment

ENV_POOL = ["PV_A", "PV_B", "CV_A", "UV_A", "OTHER_1", "OTHER_2", "LANG", "EDITOR", "LC_ALL_X", "PYTHONPATH"]


C10_PATH = "/usr/local/bin:/usr/bin:/bin"


def gen_case_c10(seed, tier):
    rng = Rng(seed)
    spec = rs.new_spec()
    spec["config"]["passenv"] = ["CV_A"] if rng.chance(0.6) else []
    spec["config"]["passunsafeenv"] = ["UV_A"] if rng.chance(0.6) else []
    spec["config"]["hash"] = rng.choice(HASHES)
    path_case = Rng(subseed(seed, "path")).chance(0.35)
    if path_case:
        # the commonest variable to pass through: the invoking shell's PATH
        spec["config"]["passenv"] = spec["config"]["passenv"] + ["PATH"]
    spec["pkgs"]["e"] = {"files": {"s.txt": "src\n"}, "targets": [], "use_defs": False}
    n = rng.rng(2, 4)
    for i in range(n):
        pe = [v for v in ["PV_A", "PV_B"] if rng.chance(0.5)]
        # a target may also list, as a hashed variable of its own, one that the configuration passes
        # (hashed or unhashed) to everything
        pe += [v for v in ["UV_A", "CV_A", "PATH_X"] if rng.chance(0.2)]
        t = {"name": "t%d" % i, "kind": "genrule", "srcs": ["f:s.txt"] + (["t://e:t%d" % (i - 1)] if i > 0 and rng.chance(0.4) else []), "deps": [], "outs": ["t%d.out" % i],
             "salt": "s%d" % i, "dir": None, "binary": False, "env": {}, "pass_env": pe, "labels": [], "envdump": True}
        spec["pkgs"]["e"]["targets"].append(t)
    env = {}
    for v in ENV_POOL:
        if rng.chance(0.8):
            env[v] = "canary-%s-0-%d" % (v.lower(), rng.intn(100000))
    steps = []
    for j in range(rng.rng(2, 5)):
        v = rng.choice(ENV_POOL)
        if rng.chance(0.15) and v in env:
            steps.append({"var": v, "value": None})
        else:
            steps.append({"var": v, "value": "canary-%s-%d-%d" % (v.lower(), j + 1, rng.intn(100000))})
    threads = rng.choice([1, 4])
    rp = Rng(subseed(seed, "path-steps"))
    if path_case or rp.chance(0.2):
        env["PATH"] = C10_PATH
        for j in range(rp.rng(1, 2)):
            steps.insert(rp.intn(len(steps) + 1), {"var": "PATH", "value": C10_PATH + ":/opt/canary-path-%d-%d" % (j, rp.intn(100000))})
    return {"spec": spec, "env": env, "steps": steps, "seed": seed, "threads": threads}


def env_section(path):
    """The target's own environment dump: the lines before the first dumped input (F/D lines)."""
    try:
        lines = open(path, errors="replace").read().splitlines()
    except OSError:
        return None
    out = []
    for l in lines[1:]:
        if l.startswith(("F ", "D ")):
            break
        out.append(l)
    return out


def parse_dump(path):
    sec = env_section(path)
    if sec is None:
        return None
    d = {}
    for l in sec:
        if "=" in l:
            k, v = l.split("=", 1)
            d[k] = v
    return d


def exec_case_c10(bindir, case):
    out = []
    w = hl.World(bindir, "c10")
    try:
        spec = case["spec"]
        w.write(spec)
        args = ["build", "//e:all"] + hl.BASE_ARGS + ["-n", str(case["threads"])]
        env = dict(case["env"])
        targets = spec["pkgs"]["e"]["targets"]
        labs = ["//e:" + t["name"] for t in targets]
        cfg_pass = set(spec["config"]["passenv"])
        cfg_unsafe = set(spec["config"]["passunsafeenv"])

        def check_dumps(when, ran):
            for t in targets:
                lab = "//e:" + t["name"]
                d = parse_dump(os.path.join(w.repo, "plz-out/gen/e", t["outs"][0]))
                if d is None:
                    out.append(("missing-output", "%s: output of %s missing" % (when, lab), None))
                    return
                raw = "\n".join(env_section(os.path.join(w.repo, "plz-out/gen/e", t["outs"][0])) or [])
                allowed = set(t["pass_env"]) | cfg_pass | cfg_unsafe
                for v, val in env.items():
                    if v == "PATH":
                        # the configured build path equals the base of the invoking PATH; only the canary
                        # directory appended to it identifies the invoking shell's value
                        if "canary" not in val:
                            continue
                        val = val.split(":")[-1]
                    if v not in allowed and val in raw:
                        out.append(("env-leak", "%s: the build environment of %s contains the invoking shell's value of %s (%s), which is in no pass_env list" % (when, lab, v, val), None))
                        return
                # hashed pass lists: the recorded output must reflect the CURRENT value (a stale value means no rebuild happened)
                for v in sorted(set(t["pass_env"]) | cfg_pass):
                    want = env.get(v)
                    got = d.get(v)
                    if v == "PATH" and want is not None and got is not None and got.endswith(want):
                        continue    # plz puts its own location in front of a passed PATH
                    if want is not None and got != want:
                        out.append(("pass-env-stale", "%s: %s lists %s in pass_env (target or config); the invoking value is %r but the built output records %r" % (when, lab, v, want, got), None))
                        return
                # unsafe variables: visible whenever the command actually ran in this invocation
                if lab in ran:
                    for v in sorted(cfg_unsafe):
                        if env.get(v) is not None and d.get(v) != env.get(v):
                            out.append(("unsafe-env-not-passed", "%s: %s ran but did not see the current value of pass_unsafe_env variable %s" % (when, lab, v), None))
                            return

        res, log = w.plz(args, subseed(case["seed"], "inv0"), env_extra=env)
        if res.exit != 0:
            out.append(("build-failed", "initial build exited %d: %s" % (res.exit, res.stderr[-500:]), None))
            return out, w.stats, w.sigs
        check_dumps("initial build", [l[1] for l in log if l[0] == "S"])
        for i, st in enumerate(case["steps"]):
            if out:
                break
            v = st["var"]
            old = env.get(v)
            if st["value"] is None:
                env.pop(v, None)
            else:
                env[v] = st["value"]
            changed = env.get(v) != old
            res, log = w.plz(args, subseed(case["seed"], "inv%d" % (i + 1)), env_extra=env)
            ran = [l[1] for l in log if l[0] == "S"]
            when = "step %d (%s=%r)" % (i + 1, v, st["value"])
            if res.exit != 0:
                out.append(("build-failed", "%s: build exited %d: %s" % (when, res.exit, res.stderr[-500:]), None))
                break
            hashed_for = set(l for l, t in zip(labs, targets) if v in t["pass_env"])
            if v in cfg_pass:
                hashed_for = set(labs)
            # dependants of a rebuilt target may rerun (their input changed), so compute the allowed set transitively
            allowed = set(hashed_for)
            grew = True
            while grew:
                grew = False
                for l, t in zip(labs, targets):
                    if l not in allowed and any(s.startswith("t:") and s[2:] in allowed for s in t["srcs"]):
                        allowed.add(l)
                        grew = True
            if not changed:
                allowed = set()
            extra = [l for l in ran if l not in allowed]
            if extra:
                out.append(("rebuilt-on-unhashed-env", "%s: changing %s, which is not in the pass_env of %s, made their commands run again" % (when, v, extra), None))
                break
            check_dumps(when, ran)
        return out, w.stats, w.sigs
    finally:
        w.close()


def case_c10(bindir, seed, index, tier, extra):
    r = CaseResult()
    case = gen_case_c10(seed, tier)
    vs, stats, sigs = exec_case_c10(bindir, case)
    r.evals = stats["invocations"]
    r.stats = stats
    r.sigs = [sig(seed, json.dumps(case["steps"]))]
    if index < 2:
        r.sample = {"config_passenv": case["spec"]["config"]["passenv"], "config_passunsafeenv": case["spec"]["config"]["passunsafeenv"],
                    "targets": {t["name"]: t["pass_env"] for t in case["spec"]["pkgs"]["e"]["targets"]}, "steps": case["steps"]}
    for (c, d, _) in vs[:1]:
        r.violations.append(Violation(c, d, {"engine": "histsim", "case": case}))
    return r


def replay_c10(bindir, rp):
    vs, _, _ = exec_case_c10(bindir, rp["case"])
    return [(c, d) for (c, d, i) in vs]


# ================================================================================================
# C11: test-result reuse


def gen_case_c11(seed, tier):
    rng = Rng(seed)
    spec = rs.new_spec()
    if rng.chance(0.3):
        spec["config"]["cache"] = "@CACHE@"
    spec["config"]["hash"] = rng.choice(HASHES)
    pk = {"files": {}, "targets": [], "use_defs": False}
    spec["pkgs"]["t"] = pk
    ntests = rng.rng(2, 4)
    gens = []
    for i in range(ntests):
        val = "pass" if rng.chance(0.7) else "fail"
        kind = rng.choice(["file", "file", "gen"])
        # want: the data value with which the test passes; percfg: test_cmd given per build configuration
        t = {"name": "t%d" % i, "kind": "gentest", "srcs": [], "outs": [], "salt": "s%d" % i, "data": [], "want": "pass", "percfg": rng.chance(0.4)}
        if kind == "file":
            pk["files"]["d%d.txt" % i] = val + "\n"
            t["data"] = ["f:d%d.txt" % i]
        else:
            pk["files"]["g%d.txt" % i] = val + "\n"
            pk["targets"].append({"name": "g%d" % i, "kind": "genrule", "srcs": ["f:g%d.txt" % i], "outs": ["g%d.out" % i], "salt": "g", "raw_copy": True})
            t["data"] = ["t::g%d" % i]
        pk["targets"].append(t)
    states = [rs.clone(spec)]
    steps = []
    cur = rs.clone(spec)
    for j in range(rng.rng(2, 6)):
        r = rng.intn(100)
        if r < 14:
            steps.append({"kind": "repeat", "desc": "no change", "state": len(states) - 1})
            continue
        if r < 26:
            ts = [t for t in cur["pkgs"]["t"]["targets"] if t["kind"] == "gentest"]
            t = rng.choice(ts)
            steps.append({"kind": "args", "desc": "plz test //t:%s -- skip (a run with test arguments that passes whatever the data says)" % t["name"], "state": len(states) - 1, "target": "//t:" + t["name"]})
            continue
        if r < 32:
            steps.append({"kind": "rm-plz-out", "desc": "rm -rf plz-out", "state": len(states) - 1})
            continue
        if r >= 96:
            steps.append({"kind": "cfg", "desc": "plz test -c dbg (per-configuration commands accept the opposite data value under dbg)", "state": len(states) - 1})
            continue
        if r < 36 and len(states) > 1:
            k = rng.intn(len(states))
            cur = rs.clone(states[k])
            states.append(rs.clone(cur))
            steps.append({"kind": "edit", "desc": "revert to state %d" % k, "state": len(states) - 1})
            continue
        nxt = rs.clone(cur)
        files = sorted(nxt["pkgs"]["t"]["files"])
        if r < 80:
            f = rng.choice(files)
            old = nxt["pkgs"]["t"]["files"][f].strip()
            nxt["pkgs"]["t"]["files"][f] = ("fail" if old == "pass" else "pass") + "\n"
            desc = "flip %s to %s" % (f, nxt["pkgs"]["t"]["files"][f].strip())
        elif r < 90:
            ts = [t for t in nxt["pkgs"]["t"]["targets"] if t["kind"] == "gentest"]
            t = rng.choice(ts)
            t["salt"] = "s%d" % rng.intn(100000)
            desc = "change test_cmd of %s" % t["name"]
        else:
            ts = [t for t in nxt["pkgs"]["t"]["targets"] if t["kind"] == "gentest"]
            t = rng.choice(ts)
            t["want"] = "fail" if t.get("want", "pass") == "pass" else "pass"
            desc = "test_cmd of %s now passes when the data says %s" % (t["name"], t["want"])
        cur = nxt
        states.append(rs.clone(cur))
        steps.append({"kind": "edit", "desc": desc, "state": len(states) - 1})
    return {"states": states, "steps": steps, "seed": seed, "threads": rng.choice([1, 4])}


def c11_render(spec, log):
    """Fills in the commands of a C11 spec (they carry the absolute action-log path)."""
    s = rs.clone(spec)
    for t in s["pkgs"]["t"]["targets"]:
        lab = "//t:" + t["name"]
        if t["kind"] == "gentest":
            cmd = 'run() { echo "TS %s ${1-}" >> %s; : %s; if [ "${1-}" = skip ]; then exit 0; fi; test "`cat $DATA`" = %s; }; run' % (lab, log, t["salt"], t.get("want", "pass"))
            dbg = cmd.replace('test "`cat $DATA`" = ', 'test "`cat $DATA`" != ')
            t["test_cmd"] = {"opt": cmd, "dbg": dbg, "cover": "echo cover; " + cmd} if t.get("percfg") else cmd
        else:
            t["cmd"] = 'echo "S %s" >> %s; cat $SRCS > $OUT; echo "E %s ok" >> %s' % (lab, log, lab, log)
    return s


def c11_expect(spec, cfg="opt"):
    exp, dig = {}, {}
    files = spec["pkgs"]["t"]["files"]
    for t in spec["pkgs"]["t"]["targets"]:
        if t["kind"] != "gentest":
            continue
        d = t["data"][0]
        content = files[d[2:]] if d.startswith("f:") else files["g" + t["name"][1:] + ".txt"]
        ok = content.strip() == t.get("want", "pass")
        if cfg == "dbg" and t.get("percfg"):
            ok = not ok
        exp["//t:" + t["name"]] = ok
        dig["//t:" + t["name"]] = sig(t["salt"], t.get("want", "pass"), d, content, cfg if t.get("percfg") else "any")   # a plain command is the same command under every configuration
    return exp, dig


def parse_test_xml(path):
    import xml.etree.ElementTree as ET
    res = {}
    try:
        root = ET.parse(path).getroot()
    except Exception:
        return None
    for ts in root.iter("testsuite"):
        name = "//%s:%s" % (ts.get("package"), ts.get("name"))
        bad = int(ts.get("failures") or 0) + int(ts.get("errors") or 0)
        cached = any(p.get("name") == "cached" and p.get("value") == "true" for p in ts.iter("property"))
        res[name] = {"passed": bad == 0, "cached": cached}
    return res


def exec_case_c11(bindir, case):
    out = []
    w = hl.World(bindir, "c11")
    try:
        args = ["test", "//t:all"] + hl.BASE_ARGS + ["-n", str(case["threads"])]
        passed = {}
        seq = [{"kind": "initial", "desc": "initial", "state": 0}] + case["steps"]
        for i, st in enumerate(seq):
            spec = resolve_cache(case["states"][st["state"]], w)
            if st["kind"] == "rm-plz-out":
                shutil.rmtree(os.path.join(w.repo, "plz-out"), ignore_errors=True)
            w.write(c11_render(spec, w.log))
            exp, dig = c11_expect(spec, "dbg" if st["kind"] == "cfg" else "opt")
            when = "step %d (%s)" % (i, st["desc"])
            if st["kind"] == "args":
                # a run with test arguments: it passes, and it is NOT a passing run of the plain test
                ares, alog = w.plz(["test", st["target"]] + hl.BASE_ARGS + ["--", "skip"], subseed(case["seed"], "args%d" % i))
                w.stats["runs_with_test_args"] = w.stats.get("runs_with_test_args", 0) + 1
                if ares.exit != 0:
                    out.append(("args-run-failed", "%s: exited %d: %s" % (when, ares.exit, ares.stderr[-300:]), i))
                    break
            res, log = w.plz(args + (["-c", "dbg"] if st["kind"] == "cfg" else []), subseed(case["seed"], "inv%d" % i))
            if st["kind"] == "cfg":
                w.stats["runs_under_dbg"] = w.stats.get("runs_under_dbg", 0) + 1
            if res.exit == simlib.EXIT_HANG:
                out.append(("hang", "%s: plz test did not terminate" % when, i))
                break
            ran = set(l[1] for l in log if l[0] == "TS")
            allpass = all(exp.values())
            if allpass and res.exit != 0:
                out.append(("test-exit-nonzero-all-pass", "%s: every test passes on this tree but plz test exited %d: %s" % (when, res.exit, res.stderr[-400:]), i))
                break
            if not allpass and res.exit == 0:
                out.append(("test-exit-zero-with-failure", "%s: tests %s fail on this tree but plz test exited 0" % (when, [l for l in exp if not exp[l]]), i))
                break
            xml = parse_test_xml(os.path.join(w.repo, "plz-out/log/test_results.xml"))
            if xml is not None:
                for lab in sorted(exp):
                    if lab in xml and xml[lab]["passed"] != exp[lab]:
                        out.append(("wrong-test-outcome", "%s: %s is reported as %s but a fresh run on this tree %s" % (when, lab, "passed" if xml[lab]["passed"] else "failed", "passes" if exp[lab] else "fails"), i))
                        break
            if out:
                break
            for lab in sorted(exp):
                if lab not in ran:
                    if not exp[lab]:
                        out.append(("failing-result-reused", "%s: %s fails on this tree but its test command was not run (a stored result was used)" % (when, lab), i))
                        break
                    if dig[lab] not in passed.get(lab, set()):
                        out.append(("result-reused-with-changed-inputs", "%s: the test command of %s was not run, but no earlier passing run had the current test command and data" % (when, lab), i))
                        break
                    w.stats["results_reused"] = w.stats.get("results_reused", 0) + 1
                else:
                    w.stats["tests_run"] = w.stats.get("tests_run", 0) + 1
                    if exp[lab]:
                        passed.setdefault(lab, set()).add(dig[lab])
            if out:
                break
        return out, w.stats, w.sigs
    finally:
        w.close()


def case_c11(bindir, seed, index, tier, extra):
    r = CaseResult()
    case = gen_case_c11(seed, tier)
    vs, stats, sigs = exec_case_c11(bindir, case)
    r.evals = stats["invocations"]
    r.stats = stats
    r.sigs = [sig(seed, len(case["steps"]))] if len(case["steps"]) >= 2 else []
    if index < 2:
        r.sample = {"steps": [s["desc"] for s in case["steps"]], "files": case["states"][0]["pkgs"]["t"]["files"]}
    for (c, d, i) in vs[:1]:
        r.violations.append(Violation(c, d, {"engine": "histsim", "case": case}))
    return r


def replay_c11(bindir, rp):
    vs, _, _ = exec_case_c11(bindir, rp["case"])
    return [(c, d) for (c, d, i) in vs]


# ================================================================================================
# C35: declared output hashes enforced


def _hex(algo, data):
    import hashlib
    return hashlib.new(algo, data).hexdigest()


def c35_target(shape, content, declared, binary=False):
    """A genrule with fixed, known output bytes."""
    t = {"name": "h", "kind": "genrule", "srcs": [], "outs": [], "salt": "x", "hashes": declared, "binary": binary}
    if shape == "file":
        t["outs"] = ["h.out"]
        t["body"] = 'printf "%s" > "$OUT"; ' % content
    elif shape == "multi":
        t["outs"] = ["h1.out", "h2.out"]
        t["body"] = 'printf "%s" > h1.out; printf "%s-2" > h2.out; ' % (content, content)
    else:
        t["outs"] = ["hd"]
        t["body"] = 'mkdir -p "$OUT/s"; printf "%s" > "$OUT/a"; printf "%s-b" > "$OUT/s/b"; ' % (content, content)
    return t


def c35_spec(t, cache, log, compress):
    spec = rs.new_spec()
    spec["config"]["cache"] = cache
    spec["config"]["dircompress"] = compress
    t = dict(t)
    t["cmd"] = 'echo "S //h:h" >> %s; %s echo "E //h:h ok" >> %s' % (log, t["body"], log)
    spec["pkgs"]["h"] = {"files": {}, "targets": [t], "use_defs": False}
    return spec


def learn_hashes(w, shape, content, seed):
    """True output hashes per algorithm. Single files: computed here with hashlib. Several files or a
    directory: read from the message plz prints for a deliberately wrong declaration."""
    if shape == "file":
        return {"sha1": _hex("sha1", content.encode()), "sha256": _hex("sha256", content.encode())}
    spec = c35_spec(c35_target(shape, content, ["0" * 40]), None, w.log, False)
    d = w.sc.path("learn")
    os.makedirs(d, exist_ok=True)
    rs.materialise(spec, d, w.log)
    res = simlib.run_plz(w.bindir, d, ["build", "//h:h"] + hl.BASE_ARGS, seed, w.home, w.sc.path("ltrace"), policy="first")
    found = {}
    import re
    for m in re.finditer(r"(sha1|sha256|blake3): ([0-9a-f]+)", res.stderr):
        found[m.group(1)] = m.group(2)
    shutil.rmtree(d, ignore_errors=True)
    return found


def gen_case_c35(seed, tier):
    rng = Rng(seed)
    shape = rng.choice(["file", "file", "file", "multi", "dir"])
    content = "payload-%d" % rng.intn(100000)
    return {"seed": seed, "shape": shape, "content": content, "decl_kind": rng.choice(["correct-sha1", "correct-sha256", "prefixed", "prefixed-space", "near-miss", "wrong-length", "other-output", "two-one-correct", "uppercase"]),
            "scenario": rng.choice(["build", "redeclare-wrong", "redeclare-wrong", "cache-corrupt", "cache-corrupt", "cache-corrupt", "cache-corrupt-ab", "cache-corrupt-ab", "cache-stale-decl", "rebuild-after-fail"]), "compress": rng.chance(0.5), "binary": rng.chance(0.2),
            "corrupt": rng.choice(["flip", "truncate", "swap", "inplace", "inplace"])}


def declared_for(kind, true, rng):
    s1, s256 = true.get("sha1", "0" * 40), true.get("sha256", "0" * 64)
    if kind == "correct-sha1":
        return [s1], True
    if kind == "correct-sha256":
        return [s256], True
    if kind == "prefixed":
        return ["sha256:" + s256], True
    if kind == "prefixed-space":
        return ["sha1: " + s1], True
    if kind == "near-miss":
        c = "0" if s1[-1] != "0" else "1"
        return [s1[:-1] + c], False
    if kind == "wrong-length":
        return [s1[:-2], s256 + "00"], False
    if kind == "other-output":
        return [_hex("sha1", b"something else entirely")], False
    if kind == "two-one-correct":
        return [_hex("sha256", b"nope"), s1], True
    if kind == "uppercase":
        return [s1.upper()], None   # not specified whether case-insensitive: either outcome accepted, consistency still required
    return [s1], True


def exec_case_c35(bindir, case):
    out = []
    w = hl.World(bindir, "c35")
    try:
        rng = Rng(subseed(case["seed"], "c35"))
        true = learn_hashes(w, case["shape"], case["content"], case["seed"])
        if "sha1" not in true:
            raise simlib.Infra("could not learn output hashes for shape %s: %s" % (case["shape"], true))
        declared, ok = declared_for(case["decl_kind"], true, rng)
        use_cache = case["scenario"].startswith("cache")
        cache = w.sc.path("cache") if use_cache else None
        args = ["build", "//h:h"] + hl.BASE_ARGS
        t = c35_target(case["shape"], case["content"], declared, case["binary"])
        spec = c35_spec(t, cache, w.log, case["compress"])
        w.write(spec)
        base = "plz-out/bin/h" if case["binary"] else "plz-out/gen/h"

        def outputs_ok():
            """do the outputs in plz-out hash to the true value?"""
            if case["shape"] == "file":
                p = os.path.join(w.repo, base, "h.out")
                return os.path.exists(p) and _hex("sha1", open(p, "rb").read()) == true["sha1"]
            snap = [simlib.snapshot(os.path.join(w.repo, base, o)) for o in t["outs"]]
            return snap == ref_snap[0]
        ref_snap = [None]

        def build(tag, expect_ok):
            res, log = w.plz(args, subseed(case["seed"], tag))
            if res.exit == simlib.EXIT_HANG:
                out.append(("hang", "%s: build did not terminate" % tag, None))
                return res, log
            if expect_ok is True and res.exit != 0:
                out.append(("correct-hash-rejected", "%s: declared %s contains the true hash (%s) but the build failed: %s" % (tag, declared, true, res.stderr[-400:]), None))
            if expect_ok is False and res.exit == 0:
                out.append(("wrong-hash-accepted", "%s: declared %s does not contain the output's hash under any configured algorithm (%s) but the build succeeded" % (tag, declared, true), None))
            return res, log

        res, log = build("first", ok)
        if out:
            return out, w.stats, w.sigs
        first_ok = res.exit == 0
        if first_ok and case["shape"] != "file":
            ref_snap[0] = [simlib.snapshot(os.path.join(w.repo, base, o)) for o in t["outs"]]
        if first_ok and case["shape"] == "file" and not outputs_ok():
            out.append(("verified-but-wrong-bytes", "build succeeded but the output does not hash to a declared value", None))
            return out, w.stats, w.sigs
        sc = case["scenario"]
        if not first_ok:
            # a failed verification must not leave anything a later build treats as verified
            res2, _ = build("again-after-failure", False if ok is False else None)
            if res2.exit == 0 and not out:
                out.append(("mismatch-forgotten", "the first build failed hash verification (declared %s, true %s) but building again without any change succeeded" % (declared, true), None))
            if not out and sc == "rebuild-after-fail":
                shutil.rmtree(os.path.join(w.repo, "plz-out"), ignore_errors=True)
                res3, _ = build("after-rm-plz-out", False if ok is False else None)
                if res3.exit == 0 and not out:
                    out.append(("mismatch-forgotten", "verification failed, plz-out was removed, and the next build succeeded with the same wrong declaration", None))
            return out, w.stats, w.sigs
        if sc == "cache-corrupt":
            # corrupt the stored artifact, drop plz-out, build again: success is only acceptable with correct outputs
            n = corrupt_cache(w.sc.path("cache"), case["corrupt"], rng)
            w.stats["cache_entries_corrupted"] = w.stats.get("cache_entries_corrupted", 0) + n
            shutil.rmtree(os.path.join(w.repo, "plz-out"), ignore_errors=True)
            res2, log2 = w.plz(args, subseed(case["seed"], "after-corrupt"))
            if res2.exit == 0 and not outputs_ok():
                out.append(("corrupt-artifact-accepted", "a cache entry was corrupted (%s); the next build restored it and succeeded although the outputs no longer hash to a declared value %s" % (case["corrupt"], declared), None))
            elif res2.exit != 0:
                w.stats["corrupt_restore_rejected"] = w.stats.get("corrupt_restore_rejected", 0) + 1
                # and the rejected artifact must not be trusted next time either
                res3, _ = w.plz(args, subseed(case["seed"], "after-corrupt-2"))
                if res3.exit == 0 and not outputs_ok():
                    out.append(("rejected-artifact-trusted-later", "a corrupted cache entry was rejected once, but the following build succeeded with outputs that do not hash to a declared value", None))
        elif sc == "cache-corrupt-ab" and case["shape"] == "file":
            # the output follows an input; both contents are declared. A is built and stored, B is built
            # and stored, the stored artifacts are replaced, the input goes back to A with B's (valid)
            # output still in plz-out: the restored artifact must not pass on the strength of B's hash
            ca, cb = case["content"], case["content"] + "-B"
            decl = [_hex("sha256", ca.encode()), _hex("sha256", cb.encode())]

            def ab_spec(val):
                t3 = {"name": "h", "kind": "genrule", "srcs": ["f:in.txt"], "outs": ["h.out"], "salt": "x", "hashes": decl, "binary": case["binary"]}
                sp = rs.new_spec()
                sp["config"]["cache"] = cache
                sp["config"]["dircompress"] = case["compress"]
                sp["config"]["hash"] = "sha256"
                t3["cmd"] = 'echo "S //h:h" >> %s; printf "%%s" "`cat $SRCS`" > "$OUT"; echo "E //h:h ok" >> %s' % (w.log, w.log)
                sp["pkgs"]["h"] = {"files": {"in.txt": val}, "targets": [t3], "use_defs": False}
                return sp
            shutil.rmtree(os.path.join(w.repo, "plz-out"), ignore_errors=True)
            shutil.rmtree(w.sc.path("cache"), ignore_errors=True)
            w.prev_files = None
            w.write(ab_spec(ca))
            r1, _ = w.plz(args, subseed(case["seed"], "ab1"))
            w.write(ab_spec(cb))
            r2, _ = w.plz(args, subseed(case["seed"], "ab2"))
            if r1.exit != 0 or r2.exit != 0:
                out.append(("correct-hash-rejected", "A/B scenario: builds with correctly declared hashes failed (%d, %d): %s" % (r1.exit, r2.exit, (r1.stderr + r2.stderr)[-400:]), None))
                return out, w.stats, w.sigs
            n = corrupt_cache(w.sc.path("cache"), "swap", rng)
            w.stats["cache_entries_corrupted"] = w.stats.get("cache_entries_corrupted", 0) + n
            w.write(ab_spec(ca))
            r3, _ = w.plz(args, subseed(case["seed"], "ab3"))
            p = os.path.join(w.repo, base, "h.out")
            good = os.path.exists(p) and open(p, "rb").read() == ca.encode()
            if r3.exit == 0 and not good:
                out.append(("corrupt-artifact-accepted", "A built and stored, B built and stored, stored artifacts replaced, input back to A with B's output still in plz-out: the build succeeded with an output that hashes to neither declared value", None))
            elif r3.exit == 0:
                r4, _ = w.plz(args, subseed(case["seed"], "ab4"))
                if r4.exit != 0:
                    out.append(("verified-then-rejected", "A/B scenario: success followed by failure on an unchanged tree", None))
        elif sc == "redeclare-wrong":
            # the outputs of a verified build stay in plz-out; the declaration is edited to a value the
            # outputs do not have; the rebuild produces the same bytes. It must fail, and keep failing.
            wrong = rng.choice([[_hex("sha1", b"not this")], [true.get("sha256", "0" * 64)[:-1] + ("0" if true.get("sha256", "0" * 64)[-1] != "0" else "1")], ["sha1: " + _hex("sha1", b"nor this")]])
            t2 = c35_target(case["shape"], case["content"], wrong, case["binary"])
            w.write(c35_spec(t2, cache, w.log, case["compress"]))
            for k in range(2):
                res2, _ = w.plz(args, subseed(case["seed"], "redecl%d" % k))
                if res2.exit == 0:
                    out.append(("wrong-hash-accepted", "a verified build's outputs are in plz-out; after editing `hashes` to %s (which the outputs do not have) build number %d of the edited tree succeeded" % (wrong, k + 1), None))
                    break
        elif sc == "cache-stale-decl":
            # change the declaration to a wrong value; the stored artifact must not satisfy it
            t2 = c35_target(case["shape"], case["content"], [_hex("sha1", b"a different expectation")], case["binary"])
            w.write(c35_spec(t2, cache, w.log, case["compress"]))
            shutil.rmtree(os.path.join(w.repo, "plz-out"), ignore_errors=True)
            res2, _ = w.plz(args, subseed(case["seed"], "stale-decl"))
            if res2.exit == 0:
                out.append(("wrong-hash-accepted", "after changing the declared hash to a value the output does not have, the build (restoring from cache) succeeded", None))
        else:
            # no-op build must stay verified and green
            res2, log2 = w.plz(args, subseed(case["seed"], "noop"))
            if res2.exit != 0:
                out.append(("verified-then-rejected", "the build succeeded, and an immediate second build of the unchanged tree failed: %s" % res2.stderr[-300:], None))
        return out, w.stats, w.sigs
    finally:
        w.close()


def corrupt_cache(cdir, how, rng):
    """Damages every stored artifact file under the cache directory. Returns the number of files touched."""
    n = 0
    for dp, dn, fn in os.walk(cdir):
        for f in sorted(fn):
            p = os.path.join(dp, f)
            if f.startswith(".") or os.path.islink(p):
                continue
            data = open(p, "rb").read()
            if not data:
                continue
            if how == "inplace":
                # same inode (and so the same xattrs, hash record included), different bytes
                i = len(data) // 2
                os.chmod(p, 0o644)
                with open(p, "r+b") as fh:
                    fh.seek(i)
                    fh.write(bytes([data[i] ^ 0x41]))
                n += 1
                continue
            if how == "flip":
                i = len(data) // 2
                data = data[:i] + bytes([data[i] ^ 0x41]) + data[i + 1:]
            elif how == "truncate":
                data = data[:max(1, len(data) // 2)]
            else:
                data = b"swapped content " + data[::-1]
            os.chmod(p, 0o644)
            os.remove(p)          # break the hard link to plz-out first
            with open(p, "wb") as fh:
                fh.write(data)
            n += 1
    return n


def case_c35(bindir, seed, index, tier, extra):
    r = CaseResult()
    case = gen_case_c35(seed, tier)
    vs, stats, sigs = exec_case_c35(bindir, case)
    r.evals = stats["invocations"]
    r.stats = stats
    r.stats.setdefault("scenarios", {})
    r.stats["scenarios"][case["scenario"]] = 1
    r.stats.setdefault("declarations", {})
    r.stats["declarations"][case["decl_kind"]] = 1
    r.sigs = [sig(case["shape"], case["decl_kind"], case["scenario"], case["compress"], case["binary"], case["corrupt"] if case["scenario"] == "cache-corrupt" else "")]
    if index < 3:
        r.sample = case
    for (c, d, i) in vs[:1]:
        r.violations.append(Violation(c, d, {"engine": "histsim", "case": case}))
    return r


def replay_c35(bindir, rp):
    vs, _, _ = exec_case_c35(bindir, rp["case"])
    return [(c, d) for (c, d, i) in vs]
