"""History-space checks: C01 (incremental == clean), C02 (cache restore == build), C03 (no-op / cut-off)."""
import json, os, shutil

import histlib as hl
import repospec as rs
import simlib
from framework import CaseResult, Violation, sig
from schedchecks import pick_request, request_closure, cmd_targets
from simlib import Rng, subseed

HASHES = ["sha1", "sha256", "blake3", "xxhash", "crc32", "crc64"]


def gen_history(seed, tier, cache=False, nsteps=(2, 6)):
    rng = Rng(seed)
    spec = rs.gen_repo(rng, n_targets=(3, 10), n_pkgs=(1, 3), dep_density=0.6, use_defs_p=0.2, max_fanin=5, env_p=0.15)
    spec["config"]["hash"] = rng.choice(HASHES)
    spec["config"]["xattrs"] = rng.chance(0.75)
    if cache:
        spec["config"]["cache"] = "@CACHE@"
        spec["config"]["dircompress"] = rng.chance(0.5)
        spec["config"]["cache_workers"] = rng.choice([0, 0, 2])
    req = pick_request(rng, spec)
    states = [rs.clone(spec)]
    steps = []
    n = rng.rng(*nsteps)
    cur = rs.clone(spec)
    for i in range(n):
        r = rng.intn(100)
        if cache and r < 30:
            steps.append({"kind": "rm-plz-out", "desc": "rm -rf plz-out", "state": len(states) - 1})
            continue
        if r < 12 and len(states) > 1:
            k = rng.intn(len(states))
            cur = rs.clone(states[k])
            states.append(rs.clone(cur))
            steps.append({"kind": "edit", "desc": "revert to state %d" % k, "state": len(states) - 1})
            continue
        if r < 18:
            steps.append({"kind": "rm-plz-out", "desc": "rm -rf plz-out", "state": len(states) - 1})
            continue
        if r < 24:
            steps.append({"kind": "touch", "desc": "rewrite every source file with identical bytes", "state": len(states) - 1})
            continue
        desc = None
        for _ in range(6):
            op = rng.choice(hl.EDIT_OPS)
            nxt = rs.clone(cur)
            desc = op(rng, nxt)
            if desc:
                cur = nxt
                break
        if not desc:
            continue
        states.append(rs.clone(cur))
        steps.append({"kind": "edit", "desc": desc, "state": len(states) - 1})
    threads = rng.choice([1, 2, 4, 8])
    return {"states": states, "steps": steps, "req": req, "threads": threads, "seed": seed}


def resolve_cache(spec, world):
    if spec["config"].get("cache") == "@CACHE@":
        s = rs.clone(spec)
        s["config"]["cache"] = world.sc.path("cache")
        return s
    return spec


def apply_step(world, hist, step):
    spec = resolve_cache(hist["states"][step["state"]], world)
    if step["kind"] == "rm-plz-out":
        shutil.rmtree(os.path.join(world.repo, "plz-out"), ignore_errors=True)
    elif step["kind"] == "touch":
        for rel in sorted(world.prev_files or {}):
            if rel.endswith(".txt"):
                p = os.path.join(world.repo, rel)
                data = open(p, "rb").read()
                os.remove(p)
                with open(p, "wb") as f:
                    f.write(data)
    world.write(spec)
    return spec


def exec_history_c01(bindir, hist, check_noop=False, c03=False):
    """Runs the history; returns (violations [(cls, detail, step_index)], stats, sigs)."""
    out = []
    w = hl.World(bindir, "c01")
    try:
        args = ["build"] + hist["req"] + hl.BASE_ARGS + ["-n", str(hist["threads"])]
        last_built = {}   # label -> inputs digest at the time its command last ran
        spec = resolve_cache(hist["states"][0], w)
        w.write(spec)
        seq = [{"kind": "initial", "desc": "initial build", "state": 0}] + hist["steps"]
        for i, step in enumerate(seq):
            if i > 0:
                spec = apply_step(w, hist, step)
            labs = request_closure(spec, hist["req"])
            clean = w.clean_build(spec, hist["req"], all_labels=labs if c03 else None)
            res, log = w.plz(args, subseed(hist["seed"], "inv%d" % i))
            if res.exit == simlib.EXIT_HANG:
                out.append(("hang", "incremental build did not terminate: %s" % res.sim_fail, i))
                break
            if (res.exit == 0) != (clean["exit"] == 0):
                out.append(("exit-mismatch", "step %d (%s): incremental build exited %d, clean build of the same tree exited %d; incremental stderr: %s; clean stderr: %s" % (i, step["desc"], res.exit, clean["exit"], res.stderr[-500:], clean["stderr"][-500:]), i))
                break
            if res.exit == 0:
                diffs, kinds = w.compare_outputs(clean)
                if diffs:
                    cls = "stale-output"
                    if kinds == {"execbit"}:
                        cls = "stale-execbit"  # contents and names agree, only executable bits differ
                    out.append((cls, "step %d (%s): outputs differ from a clean build of the same tree: %s" % (i, step["desc"], " | ".join(diffs[:3])), i))
                    break
                inc_paths = sorted(set(l.strip() for l in res.stdout.splitlines() if l.strip().startswith("plz-out/")))
                if inc_paths != clean["stdout_paths"]:
                    out.append(("output-list-differs", "step %d (%s): incremental build lists outputs %s, clean build lists %s" % (i, step["desc"], inc_paths, clean["stdout_paths"]), i))
                    break
            ran = [l[1] for l in log if l[0] == "S"]
            if step["kind"] == "rm-plz-out" and spec["config"].get("cache") and res.exit == 0:
                cmds = cmd_targets(spec)
                w.stats["targets_restored_from_cache"] = w.stats.get("targets_restored_from_cache", 0) + len([l for l in labs if l in cmds and l not in ran])
                w.stats["builds_after_rm_plz_out_with_cache"] = w.stats.get("builds_after_rm_plz_out_with_cache", 0) + 1
            w.stats["commands_run"] = w.stats.get("commands_run", 0) + len(ran)
            if c03 and res.exit == 0 and clean["exit"] == 0:
                files = rs.render_files(spec, w.log)
                for lab in labs:
                    dg = inputs_digest(spec, lab, clean, files)
                    if lab in ran:
                        if step["kind"] != "rm-plz-out" and lab in last_built and last_built[lab] == dg:
                            out.append(("reran-unchanged", "step %d (%s): the command of %s ran again although neither its definition nor the content of any input changed since it was last built" % (i, step["desc"], lab), i))
                        last_built[lab] = dg
                    elif step["kind"] == "rm-plz-out":
                        last_built.pop(lab, None)
                if out:
                    break
            if check_noop and res.exit == 0:
                res2, log2 = w.plz(args, subseed(hist["seed"], "noop%d" % i))
                ran2 = [l[1] for l in log2 if l[0] == "S"]
                if ran2:
                    out.append(("noop-ran-commands", "step %d (%s): an immediate second `plz build` of the unchanged tree ran commands: %s" % (i, step["desc"], ran2), i))
                    break
                if res2.exit != 0:
                    out.append(("noop-failed", "step %d: the no-op build exited %d: %s" % (i, res2.exit, res2.stderr[-400:]), i))
                    break
        return out, w.stats, w.sigs
    finally:
        w.close()


def inputs_digest(spec, lab, clean, files):
    """Digest of everything that may legitimately make lab's command run: its rendered definition,
    the configuration, its source files' bytes and its dependencies' output contents."""
    import hashlib
    h = hashlib.sha256()
    if lab == "//defs:gen":
        h.update(files.get("defs/BUILD", b"") + files.get("defs/d.build_defs.in", b"") + files.get(".plzconfig", b""))
        return h.hexdigest()[:20]
    ft = rs.find_target(spec, lab)
    if ft is None:
        return "none"
    pkg, t = ft
    h.update(files.get(".plzconfig", b""))
    pk = spec["pkgs"][pkg]
    h.update(rs.render_target(pkg, t, "LOG", spec.get("defs") and pk.get("use_defs")).encode())
    if spec.get("defs") and pk.get("use_defs"):
        h.update(clean["content"].get("//defs:gen", "").encode())
    for s in t["srcs"] + (t.get("data") or []):
        if s.startswith("f:"):
            h.update(("F " + s[2:] + " ").encode() + files.get(pkg + "/" + s[2:], b""))
        else:
            h.update(("T " + s[2:] + " " + clean["content"].get(rs.norm_label(pkg, s[2:]), "?")).encode())
    for d in (t.get("deps") or []) + (t.get("tools") or []):
        h.update(("D " + d + " " + clean["content"].get(rs.norm_label(pkg, d), "?")).encode())
    return h.hexdigest()[:20]


def minimise_history(bindir, hist, cls, runner):
    """Drops steps one at a time while the same violation class persists."""
    cur = hist
    i = 0
    budget = 12
    while i < len(cur["steps"]) and budget > 0:
        trial = json.loads(json.dumps(cur))
        del trial["steps"][i]
        budget -= 1
        try:
            vs, _, _ = runner(bindir, trial)
        except simlib.Infra:
            vs = []
        if any(v[0] == cls for v in vs):
            cur = trial
        else:
            i += 1
    return cur


def _case(bindir, seed, index, tier, gen, runner, sample_fn=None):
    r = CaseResult()
    hist = gen(seed, tier)
    vs, stats, sigs = runner(bindir, hist)
    r.evals = stats["invocations"] + stats["clean_builds"]
    r.stats = stats
    r.stats["histories"] = 1
    r.stats["history_steps"] = len(hist["steps"])
    r.sigs = [sig(seed, len(hist["steps"]))] if len(hist["steps"]) >= 2 else []
    if index < 3:
        r.sample = {"request": hist["req"], "steps": [s["desc"] for s in hist["steps"]], "targets": [rs.label(p, t["name"]) + ":" + t["kind"] for p, t in rs.all_targets(hist["states"][0])]}
    for (c, d, i) in vs[:1]:
        small = minimise_history(bindir, hist, c, runner)
        v = Violation(c, d, {"engine": "histsim", "history": small})
        fid = FINDING_BY_CLASS.get(c)
        if fid:
            r.pending_known.append((fid, c, d))
            r.tagged.append((fid, v))
        else:
            r.violations.append(v)
    return r


# violation classes that are exactly one recorded finding (see known-findings.txt)
FINDING_BY_CLASS = {"stale-execbit": "C01-exec-bit-not-hashed"}


def run_c01(bindir, hist):
    return exec_history_c01(bindir, hist)


def case_c01(bindir, seed, index, tier, extra):
    return _case(bindir, seed, index, tier, lambda s, t: gen_history(s, t), run_c01)


def replay_c01(bindir, rp):
    vs, _, _ = run_c01(bindir, rp["history"])
    return [(c, d) for (c, d, i) in vs]


def run_c02(bindir, hist):
    return exec_history_c01(bindir, hist)


def case_c02(bindir, seed, index, tier, extra):
    return _case(bindir, seed, index, tier, lambda s, t: gen_history(s, t, cache=True, nsteps=(3, 7)), run_c02)


def replay_c02(bindir, rp):
    vs, _, _ = run_c02(bindir, rp["history"])
    return [(c, d) for (c, d, i) in vs]


def run_c03(bindir, hist):
    return exec_history_c01(bindir, hist, check_noop=True, c03=True)


def case_c03(bindir, seed, index, tier, extra):
    return _case(bindir, seed, index, tier, lambda s, t: gen_history(s, t), run_c03)


def replay_c03(bindir, rp):
    vs, _, _ = run_c03(bindir, rp["history"])
    return [(c, d) for (c, d, i) in vs]


# ================================================================================================
# C32: crashes never leave wrongly trusted files


def gen_history_c32(seed, tier):
    rng = Rng(seed)
    hist = gen_history(seed, tier, cache=rng.chance(0.3), nsteps=(1, 2))
    hist["prebuild"] = rng.chance(0.7)     # a successful build of state 0 before the edits
    hist["points"] = 8 if tier == "quick" else 0   # 0 = every FS operation
    hist["kill_in_cmd"] = rng.chance(0.5)
    return hist


def copy_tree(src, dst):
    shutil.rmtree(dst, ignore_errors=True)
    import subprocess
    subprocess.run(["cp", "-a", src, dst], check=True)


def exec_history_c32(bindir, hist):
    out = []
    w = hl.World(bindir, "c32")
    try:
        rng = Rng(subseed(hist["seed"], "c32"))
        args = ["build"] + hist["req"] + hl.BASE_ARGS + ["-n", str(hist["threads"])]
        spec = resolve_cache(hist["states"][0], w)
        w.write(spec)
        if hist.get("prebuild"):
            res, _ = w.plz(args, subseed(hist["seed"], "pre"))
            if res.exit != 0:
                return out, w.stats, w.sigs   # generator produced something unbuildable; nothing to check
        for step in hist["steps"]:
            spec = apply_step(w, hist, step)
        clean = w.clean_build(spec, hist["req"])
        if clean["exit"] != 0:
            return out, w.stats, w.sigs
        bak = w.sc.path("bak")
        cbak = w.sc.path("cachebak")
        copy_tree(w.repo, bak)
        if os.path.isdir(w.sc.path("cache")):
            copy_tree(w.sc.path("cache"), cbak)
        vseed = subseed(hist["seed"], "victim")
        # dry run: how many mutating FS operations does the victim build perform?
        res, _ = w.plz(args, vseed)
        if res.exit != 0:
            out.append(("victim-build-failed", "the uncrashed victim build exited %d: %s" % (res.exit, res.stderr[-400:]), 0))
            return out, w.stats, w.sigs
        diffs0, _ = w.compare_outputs(clean)
        if diffs0:
            # the uncrashed incremental build already differs from a clean build: that is C01's business
            # (reported there), and says nothing about crashes
            w.stats["skipped_uncrashed_build_already_stale"] = w.stats.get("skipped_uncrashed_build_already_stale", 0) + 1
            return out, w.stats, w.sigs
        nops = int(res.stats.get("fsops", 0))
        w.stats["victim_fs_ops"] = w.stats.get("victim_fs_ops", 0) + nops
        points = list(range(1, nops + 1))
        explicit = hist.get("crash_points")
        if explicit:
            points = explicit
        elif hist.get("points"):
            points = sorted(rng.sample(points, min(hist["points"], len(points))))
        plans = [("fs", n) for n in points]
        # crash from inside a running command (after its first output was written)
        if hist.get("kill_in_cmd") and not explicit:
            cands = [l for l in clean["ran"]]
            if cands:
                plans.append(("cmd", rng.choice(sorted(cands))))
        if hist.get("cmd_kill"):
            plans = [("cmd", hist["cmd_kill"])]
        for kind, arg in plans:
            copy_tree(bak, w.repo)
            w.prev_files = None
            if os.path.isdir(cbak):
                copy_tree(cbak, w.sc.path("cache"))
            else:
                shutil.rmtree(w.sc.path("cache"), ignore_errors=True)  # the dry run may have created it
            faults = None
            if kind == "fs":
                faults = [{"Kind": "crash", "At": arg, "Arg": "" if rng.chance(0.7) else "notear"}]
                cres, _ = w.plz(args, vseed, faults=faults)
            else:
                # re-render the tree with the trigger wired into that target's command
                ks = rs.clone(spec)
                ft = rs.find_target(ks, arg)
                if ft is None or ft[1]["kind"] != "genrule" or ft[1].get("dir") is not None or len(ft[1]["outs"]) < 1:
                    continue
                kf = w.sc.path("KILLME")
                ft[1]["killfile"] = kf
                # the command text changes, so take a new reference and a new baseline for this variant
                rs.materialise(ks, w.repo, w.log, None)
                open(kf, "w").close()
                cres, _ = w.plz(args, vseed)
                clean_k = w.clean_build(ks, hist["req"])
                if os.path.exists(kf):
                    os.remove(kf)   # the target was not rebuilt in this run; nothing was injected
                    continue
            if cres.exit != -9:
                if kind == "fs":
                    # the run finished before op n (schedule-identical runs should not): infrastructure problem
                    raise simlib.Infra("crash point %s not reached (exit %s)" % (arg, cres.exit))
                continue
            w.stats["crashes_injected"] = w.stats.get("crashes_injected", 0) + 1
            w.stats["crash_kind_" + kind] = w.stats.get("crash_kind_" + kind, 0) + 1
            if any(l.startswith("W torn") for l in cres.trace_lines()[-30:]):
                w.stats["torn_writes"] = w.stats.get("torn_writes", 0) + 1
            ref = clean if kind == "fs" else clean_k
            rres, rlog = w.plz(args, subseed(hist["seed"], "recover-%s-%s" % (kind, arg)))
            where = "SIGKILL before FS operation %s of %d (%s)" % (arg, nops, (cres.killed_at or "").strip()) if kind == "fs" else "SIGKILL from inside the command of %s after its first output" % arg
            rp = {"crash_points": [arg]} if kind == "fs" else {"cmd_kill": arg}
            if rres.exit == simlib.EXIT_HANG:
                out.append(("hang-after-crash", "%s: the next build did not terminate" % where, rp))
                break
            if rres.exit != 0:
                out.append(("build-fails-after-crash", "%s: the next build exited %d: %s" % (where, rres.exit, rres.stderr[-600:]), rp))
                break
            saved = w.repo
            diffs, kinds = w.compare_outputs(ref)
            if diffs:
                out.append(("stale-after-crash", "%s: after the next build the outputs differ from a clean build: %s" % (where, " | ".join(diffs[:3])), rp))
                break
            nres, nlog = w.plz(args, subseed(hist["seed"], "noop-%s-%s" % (kind, arg)))
            ran = [l[1] for l in nlog if l[0] == "S"]
            if nres.exit != 0 or ran:
                out.append(("not-converged-after-crash", "%s: a third build of the unchanged tree exited %d and ran %s" % (where, nres.exit, ran), rp))
                break
            w.sigs.append("%s/%s/%s" % (hist["seed"], kind, arg))
        return out, w.stats, w.sigs
    finally:
        w.close()


def case_c32(bindir, seed, index, tier, extra):
    r = CaseResult()
    hist = gen_history_c32(seed, tier)
    vs, stats, sigs = exec_history_c32(bindir, hist)
    r.evals = stats["invocations"] + stats["clean_builds"]
    r.stats = stats
    r.sigs = [s for s in sigs if "/" in str(s)]
    if index < 2:
        r.sample = {"request": hist["req"], "prebuild": hist["prebuild"], "steps": [s["desc"] for s in hist["steps"]], "victim_fs_ops": stats.get("victim_fs_ops")}
    for (c, d, rp) in vs[:1]:
        h2 = json.loads(json.dumps(hist))
        if isinstance(rp, dict):
            h2.update(rp)
        r.violations.append(Violation(c, d, {"engine": "histsim+crashfs", "history": h2}))
    return r


def replay_c32(bindir, rp):
    vs, _, _ = exec_history_c32(bindir, rp["history"])
    return [(c, d) for (c, d, i) in vs]
