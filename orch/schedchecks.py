"""Schedule-space checks on whole plz invocations: C04 (each action once, after deps), C05
(termination, faithful failure), C07 (hash determinism)."""
import json, os, shutil

import repospec as rs
import simlib
from framework import CaseResult, Violation, sig
from simlib import Rng, Scratch, run_plz, subseed

BASE_ARGS = ["-p", "-v", "1", "--noupdate"]


def read_log(path):
    try:
        with open(path) as f:
            return [l.split() for l in f.read().splitlines() if l.strip()]
    except OSError:
        return []


def cmd_targets(spec):
    """labels of targets whose build runs a logged command"""
    r = set()
    for p, t in rs.all_targets(spec):
        if t["kind"] in ("genrule",) or (t["kind"] == "gentest" and (t.get("outs") or t.get("test_cmd") == "@TEST@")):
            r.add(rs.label(p, t["name"]))
    if spec.get("defs"):
        r.add("//defs:gen")
        if spec.get("defs_chain"):
            r.add("//defs:pre")
    return r


def cmd_preds(spec, lab, cmds, memo=None):
    """command-running predecessors of lab, looking through non-command targets"""
    if memo is None:
        memo = {}
    if lab in memo:
        return memo[lab]
    memo[lab] = set()
    ft = rs.find_target(spec, lab)
    res = set()
    if lab == "//defs:gen" and spec.get("defs_chain"):
        res.add("//defs:pre")
    if ft:
        for d in rs.direct_deps(spec, ft[0], ft[1]):
            if d in cmds:
                res.add(d)
            else:
                res |= cmd_preds(spec, d, cmds, memo)
    memo[lab] = res
    return res


def request_closure(spec, req, parsed_all=False):
    labs = rs.closure(spec, rs.expand_request(spec, req))
    if parsed_all and spec.get("defs") and any(p.get("use_defs") for p in spec["pkgs"].values()) and "//defs:gen" not in labs:
        # `plz test //...` parses every package to find the tests, and parsing a package that
        # subincludes //defs:gen builds it
        labs.append("//defs:gen")
    # parse-time dependency on //defs:gen for packages that subinclude it
    if spec.get("defs"):
        for l in list(labs):
            ft = rs.find_target(spec, l)
            if ft and spec["pkgs"][ft[0]].get("use_defs") and "//defs:gen" not in labs:
                labs.append("//defs:gen")
        if "//defs:gen" in labs and spec.get("defs_chain") and "//defs:pre" not in labs:
            labs.append("//defs:pre")
    return labs


def read_trace_file(path):
    try:
        with open(path) as f:
            return json.load(f)
    except (OSError, ValueError):
        return None


def oracle_c04(spec, req, res, log, tf_events, fresh=True, query=False, test=False, parsed_all=False):
    """Returns list of (class, detail)."""
    v = []
    cmds = cmd_targets(spec)
    starts = {}
    ends = {}
    for i, l in enumerate(log):
        if l[0] == "S":
            starts.setdefault(l[1], []).append(i)
        elif l[0] == "E":
            ends.setdefault(l[1], []).append((i, l[2] if len(l) > 2 else "ok"))
    for lab, ss in sorted(starts.items()):
        if len(ss) > 1:
            v.append(("ran-twice", "command of %s started %d times in one invocation" % (lab, len(ss))))
    memo = {}
    for lab, ss in sorted(starts.items()):
        for d in sorted(cmd_preds(spec, lab, cmds, memo)):
            oks = [i for (i, st) in ends.get(d, []) if st == "ok"]
            if not oks or min(oks) > ss[0]:
                v.append(("started-before-dep", "%s started at log line %d before its dependency %s finished (%s)" % (lab, ss[0], d, ends.get(d))))
        if lab not in ends or max(i for i, _ in ends[lab]) < ss[-1]:
            v.append(("start-without-end", "%s has a start without an end" % lab))
    if res.exit != 0:
        v.append(("unexpected-exit", "exit code %d on a buildable repository; stderr tail: %s" % (res.exit, res.stderr[-800:])))
    else:
        want = [l for l in request_closure(spec, req) if l in cmds]
        if not test:
            want = [l for l in want if (rs.find_target(spec, l) or (None, {"kind": "genrule"}))[1]["kind"] != "gentest"]
        if fresh:
            for l in want:
                if l not in starts:
                    v.append(("never-ran", "%s is in the requested closure, plz-out was empty, exit 0, but its command never ran" % l))
        extra = [l for l in starts if l not in set(request_closure(spec, req, parsed_all))]
        for l in sorted(extra):
            v.append(("ran-unrequested", "%s ran but is not in the closure of the request" % l))
        if query:
            # a query may build only what parsing needs: the subincluded target and its dependencies
            for l in sorted(starts):
                if not l.startswith("//defs:"):
                    v.append(("query-built-target", "`plz query` ran the command of %s, which no BUILD file needs for parsing" % l))
        if tf_events is not None:
            term = {}
            for e in tf_events:
                if e.get("cat") == "Build" and e.get("ph") == "E":
                    term.setdefault(e["name"], []).append(e["args"].get("description", ""))
            for l in request_closure(spec, req):
                n = len(term.get(l, []))
                if n != 1:
                    v.append(("reported-%d-times" % n if n < 3 else "reported-many-times", "%s was reported with a terminal build status %d times: %s" % (l, n, term.get(l))))
    return v


def pick_request(rng, spec):
    ts = rs.all_targets(spec)
    r = rng.intn(10)
    if r < 5:
        p, t = ts[-1]
        req = [rs.label(p, t["name"])]
        if rng.chance(0.4) and len(ts) > 1:
            p2, t2 = rng.choice(ts)
            l2 = rs.label(p2, t2["name"])
            if l2 not in req:
                req.append(l2)
        return req
    if r < 7:
        p, _ = rng.choice(ts)
        return ["//%s:all" % p]
    return ["//..."]


def gen_case_c04(seed, tier):
    rng = Rng(seed)
    spec = rs.gen_repo(rng, n_targets=(4, 16), n_pkgs=(1, 4), dep_density=0.62, use_defs_p=0.5, max_fanin=12)
    # require/provide on some pairs
    ts = rs.all_targets(spec)
    if rng.chance(0.3) and len(ts) >= 3:
        add_require_provide(rng, spec)
    inj = None
    if rng.chance(0.2):
        # one failing command plus a consumer that reaches it only through `deps`: with --keep_going
        # nothing may be handed to a builder once a dependency has failed
        gen = [(p, t) for p, t in rs.all_targets(spec) if t["kind"] == "genrule"]
        if gen:
            p_, t_ = rng.choice(gen)
            t_["fail"] = True
            inj = {"kind": "cmd", "bad": [rs.label(p_, t_["name"])], "bad_pkgs": [], "cycle": []}
            add_failure_consumer(rng, spec, inj)
    tests = []
    if inj is None and rng.chance(0.3):
        # a few tests whose data are targets of the DAG: `plz test` must run each test command once, after
        # everything it needs has been built
        for k in range(rng.rng(1, 3)):
            (dp, dt) = rng.choice([x for x in rs.all_targets(spec) if x[1]["kind"] != "gentest"])
            pkg = rng.choice(sorted(spec["pkgs"]))
            name = "t%d" % (100 + k)
            spec["pkgs"][pkg]["targets"].append({"name": name, "kind": "gentest", "srcs": [], "deps": [], "outs": [], "salt": "t", "data": ["t:" + rs.label(dp, dt["name"])], "test_cmd": "@TEST@"})
            tests.append(rs.label(pkg, name))
    req = pick_request(rng, spec)
    if inj is not None:
        req = ["//..."]
    nrun = 3 if tier == "quick" else 8
    runs = []
    for j in range(nrun):
        threads = rng.choice([1, 2, 3, 4, 8, 16])
        if inj is not None:
            args = ["build"] + req + BASE_ARGS + ["-n", str(threads), "--keep_going"]
            runs.append({"args": args, "seed": subseed(seed, "run%d" % j), "policy": "", "num_stalls": 0, "mode": "failing"})
            continue
        if tests and rng.chance(0.6):
            # (for `plz test`, -n is the number of test runs; threads need the long flag)
            args = ["test"] + (tests if rng.chance(0.5) else ["//..."]) + BASE_ARGS + ["--num_threads", str(threads)]
            runs.append({"args": args, "seed": subseed(seed, "run%d" % j), "policy": "", "num_stalls": 0, "mode": "test"})
            continue
        if spec.get("defs") and rng.chance(0.35):
            # a query builds only what parsing needs (subincluded targets and their dependencies); the
            # same ordering rules apply to those builds
            args = ["query", "deps"] + req + BASE_ARGS + ["-n", str(threads)]
        else:
            args = ["build"] + req + BASE_ARGS + ["-n", str(threads)]
            if rng.chance(0.3):
                args.append("--keep_going")
        runs.append({"args": args, "seed": subseed(seed, "run%d" % j), "policy": "", "num_stalls": rng.choice([0, 0, 0, 1, 2, 3, 4]), "horizon": 1500})   # several suspensions in one run: every timed wait can expire more than once
    return {"spec": spec, "req": req, "runs": runs, "inj": inj}


def add_require_provide(rng, spec):
    """t_prov provides {"lang": t_alt}; a consumer that requires ["lang"] and depends on t_prov gets t_alt instead."""
    ts = [(p, t) for p, t in rs.all_targets(spec) if t["kind"] == "genrule"]
    ts.sort(key=lambda pt: int(pt[1]["name"][1:]))  # creation order is a topological order
    if len(ts) < 3:
        return
    # choose provider P (index i), alternative A (index < i), consumer C (index > i) that depends on P
    for _ in range(10):
        i = rng.rng(1, len(ts) - 2)
        pp, pt = ts[i]
        ap, at = ts[rng.intn(i)]
        cons = [(p, t) for p, t in ts[i + 1:] if ("t:" + rs.label(pp, pt["name"])) in t["srcs"]]
        if not cons:
            continue
        cp, ct = rng.choice(cons)
        pt["provides"] = {"lang": rs.label(ap, at["name"])}
        ct["requires"] = ["lang"]
        return


def effective_spec(spec):
    """Applies require/provide substitution to dependency edges (for the oracle's graph)."""
    s = rs.clone(spec)
    for p, t in rs.all_targets(s):
        if t.get("requires"):
            new = []
            for x in t["srcs"]:
                if x.startswith("t:"):
                    ft = rs.find_target(s, rs.norm_label(p, x[2:]))
                    if ft and ft[1].get("provides"):
                        rep = None
                        for r in t["requires"]:
                            if r in ft[1]["provides"]:
                                rep = ft[1]["provides"][r]
                        if rep:
                            new.append("t:" + rep)
                            continue
                new.append(x)
            t["srcs"] = new
    return s


def exec_case_c04(bindir, case, only_run=None):
    """Runs every run of a case on a fresh plz-out. Returns (violations [(cls, detail, run_index, result)], stats, sigs)."""
    spec = case["spec"]
    espec = effective_spec(spec)
    out = []
    stats = {"sched_steps": 0, "sim_ms": 0, "stalls_fired": 0, "choices2plus": 0, "policies": {}}
    sigs = []
    with Scratch("c04") as sc:
        repo = sc.path("repo")
        log = sc.path("log")
        os.makedirs(repo)
        os.makedirs(sc.path("home"))
        mspec = rs.clone(spec)
        for p_, t_ in rs.all_targets(mspec):
            if t_["kind"] == "gentest" and t_.get("test_cmd") == "@TEST@":
                lab_ = rs.label(p_, t_["name"])
                t_["test_cmd"] = 'echo "S %s" >> %s; ls $DATA > /dev/null; echo "E %s ok" >> %s' % (lab_, log, lab_, log)
        rs.materialise(mspec, repo, log)
        for j, run in enumerate(case["runs"]):
            if only_run is not None and j != only_run:
                continue
            shutil.rmtree(os.path.join(repo, "plz-out"), ignore_errors=True)
            if os.path.exists(log):
                os.remove(log)
            tf = sc.path("tf%d.json" % j)
            is_query = run["args"][0] == "query"
            is_test = run["args"][0] == "test"
            res = run_plz(bindir, repo, run["args"] + ([] if (is_query or is_test) else ["--trace_file", tf]), run["seed"], sc.path("home"), sc.path("trace%d" % j),
                          policy=run.get("policy", ""), choices=run.get("choices"), stalls=run.get("stalls"),
                          num_stalls=run.get("num_stalls", 0), horizon=run.get("horizon", 0))
            if res.exit == simlib.EXIT_HANG:
                run2 = dict(run)
                run2["choices"] = res.choices()
                run2["stalls"] = res.stalls()
                out.append(("hang", "simulated invocation did not terminate: %s" % res.sim_fail, j, run2))
                break
            treq = case["req"]
            if is_test:
                # `plz test` builds the requested TESTS and what they need, nothing else
                treq = [l for l in rs.expand_request(espec, [a for a in run["args"][1:] if a.startswith("//")])
                        if (rs.find_target(espec, l) or (None, {"kind": ""}))[1]["kind"] == "gentest"]
            if case.get("inj"):
                # repositories with a failing command: the ordering half of the property
                keep = ("ran-twice", "ran-after-failed-dep", "dependant-built-after-failure", "hang", "exit-zero-on-failure")
                vs = [(c, d) for (c, d) in oracle_c05(espec, case["req"], case["inj"], res, read_log(log)) if c in keep]
                stats["failing_runs"] = stats.get("failing_runs", 0) + 1
            else:
                vs = oracle_c04(espec, treq, res, read_log(log), None if (is_query or is_test) else read_trace_file(tf), fresh=not is_query, query=is_query, test=is_test, parsed_all=is_test and "//..." in run["args"])
            stats["test_runs"] = stats.get("test_runs", 0) + (1 if is_test else 0)
            st = res.stats
            stats["query_runs"] = stats.get("query_runs", 0) + (1 if is_query else 0)
            stats["sched_steps"] += st.get("steps", 0)
            stats["sim_ms"] += st.get("sim_ms", 0)
            stats["stalls_fired"] += st.get("stalls", 0)
            stats["choices2plus"] += st.get("choices2plus", 0)
            pol = st.get("policy", "?")
            stats["policies"][pol] = stats["policies"].get(pol, 0) + 1
            for k, n in (st.get("probes") or {}).items():
                stats.setdefault("probes", {})
                stats["probes"][k] = stats["probes"].get(k, 0) + n
            if st.get("max_runnable", 0) >= 2 and st.get("choices2plus", 0) >= 10:
                sigs.append(sig(res.trace_digest()))
            if vs:
                run2 = dict(run)
                run2["choices"] = res.choices()
                run2["stalls"] = res.stalls()
                for (c, d) in vs:
                    out.append((c, d, j, run2))
                break
    return out, stats, sigs


def case_c04(bindir, seed, index, tier, extra):
    r = CaseResult()
    case = gen_case_c04(seed, tier)
    vs, stats, sigs = exec_case_c04(bindir, case)
    r.evals = len(case["runs"]) if not vs else vs[0][2] + 1
    r.stats = stats
    r.sigs = sigs
    if index < 3:
        r.sample = {"request": case["req"], "targets": [rs.label(p, t["name"]) + " <- " + ",".join(t["srcs"]) for p, t in rs.all_targets(case["spec"])], "runs": [x["args"] for x in case["runs"]]}
    for (c, d, j, run2) in vs[:1]:
        rcase = {"spec": case["spec"], "req": case["req"], "runs": [run2 if isinstance(run2, dict) else case["runs"][j]], "inj": case.get("inj")}
        rcase = minimise_c04(bindir, rcase, c)
        r.violations.append(Violation(c, d, {"engine": "schedsim", "case": rcase}))
    return r


def minimise_c04(bindir, case, cls):
    """Greedy shrink: drop targets (last first) while the same violation class persists under the
    recorded request; then shorten the choice list."""
    def fails(c):
        try:
            vs, _, _ = exec_case_c04(bindir, c)
        except simlib.Infra:
            return False
        return any(v[0] == cls for v in vs)
    # the recorded choices only make sense for the exact spec; shrink the schedule prefix first
    run = case["runs"][0]
    ch = run.get("choices")
    if ch and fails(case):
        lo, hi = 0, len(ch)
        while lo < hi:
            mid = (lo + hi) // 2
            c2 = json.loads(json.dumps(case))
            c2["runs"][0]["choices"] = ch[:mid]
            if fails(c2):
                hi = mid
            else:
                lo = mid + 1
        c2 = json.loads(json.dumps(case))
        c2["runs"][0]["choices"] = ch[:hi]
        if fails(c2):
            case = c2
    return case


def replay_c04(bindir, rp):
    vs, _, _ = exec_case_c04(bindir, rp["case"])
    return [(c, d) for (c, d, j, r) in vs]


# ================================================================================================
# C05: termination and faithful failure


def inject_failure(rng, spec):
    """Mutates spec; returns a description {kind, where, bad: set(labels whose presence in the closure implies failure), bad_pkgs: set(pkgs)}"""
    ts = rs.all_targets(spec)
    gen = [(p, t) for p, t in ts if t["kind"] == "genrule"]
    kind = rng.choice(["cmd", "cmd", "undefined-dep", "missing-pkg", "parse-error", "cycle", "cycle", "none"])
    inj = {"kind": kind, "bad": [], "bad_pkgs": [], "cycle": []}
    if kind == "cmd" and gen:
        p, t = rng.choice(gen)
        t["fail"] = True
        inj["bad"] = [rs.label(p, t["name"])]
    elif kind == "undefined-dep" and gen:
        p, t = rng.choice(gen)
        t["srcs"].append("t://%s:nonexistent_%s" % (p, t["name"]))
        inj["bad"] = [rs.label(p, t["name"])]
    elif kind == "missing-pkg" and gen:
        p, t = rng.choice(gen)
        t["srcs"].append("t://no/such/pkg:x")
        inj["bad"] = [rs.label(p, t["name"])]
    elif kind == "parse-error":
        p = rng.choice(sorted(spec["pkgs"]))
        spec["pkgs"][p]["raw_suffix"] = rng.choice(["this is ( not valid\n", "genrule(name = 'broken', cmd = )\n", "x = undefined_function_%d()\n" % rng.intn(10), "def f(:\n"])
        inj["bad_pkgs"] = [p]
        inj["bad"] = [rs.label(p, t["name"]) for t in spec["pkgs"][p]["targets"]]
    elif kind == "cycle" and len(gen) >= 1:
        # a cycle through 1..n genrules: make the earliest depend on the latest along an existing or new chain
        n = rng.rng(1, min(4, len(gen)))
        gen.sort(key=lambda pt: int(pt[1]["name"][1:]))
        chain = rng.sample(gen, n)
        chain.sort(key=lambda pt: int(pt[1]["name"][1:]))
        # ensure chain[i+1] depends on chain[i]
        for i in range(len(chain) - 1):
            ref = "t:" + rs.label(chain[i][0], chain[i][1]["name"])
            if ref not in chain[i + 1][1]["srcs"]:
                chain[i + 1][1]["srcs"].append(ref)
        back = "t:" + rs.label(chain[-1][0], chain[-1][1]["name"])
        chain[0][1]["srcs"].append(back)
        inj["cycle"] = [rs.label(p, t["name"]) for p, t in chain]
        inj["bad"] = list(inj["cycle"])
        if n == 1:
            # a self-dependency is rejected while the package is being parsed: the whole BUILD file is in error
            inj["bad_pkgs"] = [chain[0][0]]
    else:
        inj["kind"] = "none"
    return inj


def add_failure_consumer(rng, spec, inj):
    """A target that reaches the failing one only through `deps` (optionally via a filegroup), next
    to a healthy dependency: nothing stops its command from starting except the scheduler's own
    check that every dependency built."""
    bad = inj["bad"][0]
    bp, bt = rs.find_target(spec, bad)
    gen = [(p, t) for p, t in rs.all_targets(spec) if t["kind"] == "genrule" and not t.get("fail")]
    if not gen:
        return
    n = max(int(t["name"][1:]) for _, t in rs.all_targets(spec) if t["name"][1:].isdigit()) + 1
    via = bad
    pkg = rng.choice(sorted(spec["pkgs"]))
    if rng.chance(0.5):
        fg = {"name": "t%d" % n, "kind": "filegroup", "srcs": ["t:" + bad], "deps": [], "outs": [], "salt": "", "dir": None, "binary": False, "env": {}, "pass_env": [], "labels": [], "requires": [], "provides": {}}
        spec["pkgs"][pkg]["targets"].append(fg)
        via = rs.label(pkg, fg["name"])
        n += 1
    hp, ht = rng.choice(gen)
    cons = {"name": "t%d" % n, "kind": "genrule", "srcs": [], "deps": [rs.label(hp, ht["name"]), via], "outs": ["t%d.out" % n], "salt": "c", "dir": None, "binary": False, "env": {}, "pass_env": [], "labels": [], "requires": [], "provides": {}}
    if rng.chance(0.5):
        cons["deps"].reverse()
    spec["pkgs"][rng.choice(sorted(spec["pkgs"]))]["targets"].append(cons)
    inj["consumer"] = cons["name"]


def expected_failure(spec, req, inj):
    """True if the request's closure contains the injected failure."""
    if inj["kind"] == "none":
        return False
    labs = set(request_closure(spec, req))
    if set(inj["bad"]) & labs:
        return True
    # packages that get parsed: every package of a label in the closure, plus packages named by :all / ...
    if inj["bad_pkgs"]:
        pk = set()
        for l in labs:
            pk.add(l[2:].split(":")[0])
        for r in req:
            if r == "//...":
                pk |= set(spec["pkgs"])
            elif r.endswith(":all"):
                pk.add(r[2:-4])
        if pk & set(inj["bad_pkgs"]):
            return True
    return False


def parse_cycles(stderr):
    """Extracts reported cycles: list of label lists."""
    out = []
    lines = stderr.splitlines()
    i = 0
    while i < len(lines):
        if "Dependency cycle found:" in lines[i]:
            cyc = []
            i += 1
            while i < len(lines):
                l = lines[i].strip()
                if l.startswith("-> "):
                    cyc.append(l[3:].strip())
                elif l.startswith("//") and not cyc:
                    cyc.append(l)
                else:
                    break
                i += 1
            if cyc:
                out.append(cyc)
        else:
            i += 1
    return out


def failed_targets(stderr):
    """Labels listed in plz's final failure report."""
    out = []
    lines = stderr.splitlines()
    for i, l in enumerate(lines):
        if "failed:" in l and ("target failed:" in l or "targets failed:" in l):
            for m in lines[i + 1:]:
                if m.startswith("    //"):
                    out.append(m.strip())
    return out


def oracle_c05(spec, req, inj, res, log):
    v = []
    if res.exit == simlib.EXIT_HANG:
        return [("hang", "invocation did not terminate within the step/simulated-time bound: %s" % res.sim_fail)]
    exp = expected_failure(spec, req, inj)
    if exp and res.exit == 0:
        v.append(("exit-zero-on-failure", "injected %s (%s) is in the closure of %s but plz exited 0" % (inj["kind"], inj["bad"][:3], req)))
    if not exp and res.exit != 0:
        v.append(("exit-nonzero-on-success", "nothing in the closure of %s can fail (injected %s at %s) but plz exited %d; stderr tail: %s" % (req, inj["kind"], inj["bad"][:3], res.exit, res.stderr[-600:])))
    # nothing runs whose dependency failed / never finished
    cmds = cmd_targets(spec)
    starts, ends = {}, {}
    for i, l in enumerate(log):
        if l[0] == "S":
            starts.setdefault(l[1], []).append(i)
        elif l[0] == "E":
            ends.setdefault(l[1], []).append((i, l[2] if len(l) > 2 else "ok"))
    memo = {}
    for lab, ss in sorted(starts.items()):
        if len(ss) > 1:
            v.append(("ran-twice", "command of %s started %d times" % (lab, len(ss))))
        for d in sorted(cmd_preds(spec, lab, cmds, memo)):
            oks = [i for (i, st) in ends.get(d, []) if st == "ok"]
            if not oks or min(oks) > ss[0]:
                v.append(("ran-after-failed-dep", "%s started although its dependency %s had not finished successfully (%s)" % (lab, d, ends.get(d))))
    # For a failing command, only that target may be reported as failed: a dependant that shows up in
    # the failure report was handed to a builder although its dependency had failed.
    if inj["kind"] == "cmd":
        for lab in failed_targets(res.stderr):
            if lab not in inj["bad"]:
                v.append(("dependant-built-after-failure", "%s is reported as failed although only %s can fail; it was handed to a builder after its dependency had failed: %s" % (lab, inj["bad"], res.stderr[-500:])))
                break
    # the injected bad targets' dependants never start
    # reported cycles are genuine
    cycs = parse_cycles(res.stderr)
    for cyc in cycs:
        body = cyc[:-1] if len(cyc) > 1 and cyc[0] == cyc[-1] else cyc
        ok = True
        for i, a in enumerate(body):
            b = body[(i + 1) % len(body)]
            fa = rs.find_target(spec, a)
            if fa is None or b not in rs.direct_deps(spec, fa[0], fa[1]):
                ok = False
        if not ok:
            v.append(("false-cycle", "reported cycle %s is not a cycle of the repository" % cyc))
    if cycs and inj["kind"] != "cycle":
        v.append(("false-cycle", "cycle reported on an acyclic repository: %s" % cycs[:1]))
    return v


def gen_case_c05(seed, tier):
    rng = Rng(seed)
    spec = rs.gen_repo(rng, n_targets=(3, 12), n_pkgs=(1, 4), dep_density=0.55, use_defs_p=0.25, max_fanin=8, allow_dir=False)
    inj = inject_failure(rng, spec)
    if inj["kind"] == "cmd" and rng.chance(0.7):
        add_failure_consumer(rng, spec, inj)
    req = pick_request(rng, spec)
    if inj["kind"] != "none" and rng.chance(0.5) and inj["bad"]:
        # make sure the failure is often reachable
        req = [rng.choice(inj["bad"])] if rng.chance(0.5) else ["//..."]
    if inj.get("consumer"):
        req = ["//..."]
    nrun = 3 if tier == "quick" else 6
    runs = []
    for j in range(nrun):
        threads = rng.choice([1, 2, 4, 8, 16])
        args = ["build"] + req + BASE_ARGS + ["-n", str(threads)]
        if rng.chance(0.7 if inj.get("consumer") else 0.4):
            args.append("--keep_going")
        runs.append({"args": args, "seed": subseed(seed, "run%d" % j), "policy": "", "num_stalls": rng.choice([0, 0, 1, 2, 3]), "horizon": 1500})
    return {"spec": spec, "req": req, "inj": inj, "runs": runs}


def exec_case_c05(bindir, case):
    spec = case["spec"]
    espec = effective_spec(spec)
    out = []
    stats = {"sched_steps": 0, "sim_ms": 0, "stalls_fired": 0, "choices2plus": 0, "policies": {}, "injected": {}, "exit_nonzero": 0, "cycle_reports": 0}
    sigs = []
    with Scratch("c05") as sc:
        repo = sc.path("repo")
        log = sc.path("log")
        os.makedirs(repo)
        os.makedirs(sc.path("home"))
        rs.materialise(spec, repo, log)
        for j, run in enumerate(case["runs"]):
            shutil.rmtree(os.path.join(repo, "plz-out"), ignore_errors=True)
            if os.path.exists(log):
                os.remove(log)
            res = run_plz(bindir, repo, run["args"], run["seed"], sc.path("home"), sc.path("trace%d" % j),
                          policy=run.get("policy", ""), choices=run.get("choices"), stalls=run.get("stalls"),
                          num_stalls=run.get("num_stalls", 0), horizon=run.get("horizon", 0))
            vs = oracle_c05(espec, case["req"], case["inj"], res, read_log(log))
            st = res.stats
            stats["sched_steps"] += st.get("steps", 0)
            stats["sim_ms"] += st.get("sim_ms", 0)
            stats["stalls_fired"] += st.get("stalls", 0)
            stats["choices2plus"] += st.get("choices2plus", 0)
            k = case["inj"]["kind"]
            stats["injected"][k] = stats["injected"].get(k, 0) + 1
            if res.exit != 0:
                stats["exit_nonzero"] += 1
            if "Dependency cycle found" in res.stderr:
                stats["cycle_reports"] += 1
            for pk, n in (st.get("probes") or {}).items():
                stats.setdefault("probes", {})
                stats["probes"][pk] = stats["probes"].get(pk, 0) + n
            sigs.append(sig(res.trace_digest()))
            if vs:
                run2 = dict(run)
                run2["choices"] = res.choices()
                run2["stalls"] = res.stalls()
                for (c, d) in vs:
                    out.append((c, d, j, run2))
                break
    return out, stats, sigs


def case_c05(bindir, seed, index, tier, extra):
    r = CaseResult()
    case = gen_case_c05(seed, tier)
    vs, stats, sigs = exec_case_c05(bindir, case)
    r.evals = len(case["runs"]) if not vs else vs[0][2] + 1
    r.stats = stats
    r.sigs = sigs
    if index < 3:
        r.sample = {"request": case["req"], "injected": case["inj"], "runs": [x["args"] for x in case["runs"]]}
    for (c, d, j, run2) in vs[:1]:
        rcase = {"spec": case["spec"], "req": case["req"], "inj": case["inj"], "runs": [run2]}
        r.violations.append(Violation(c, d, {"engine": "schedsim", "case": rcase}))
    return r


def replay_c05(bindir, rp):
    vs, _, _ = exec_case_c05(bindir, rp["case"])
    return [(c, d) for (c, d, j, r) in vs]


# ================================================================================================
# C07: hash determinism


def enrich_for_hashing(rng, spec):
    """Adds multi-key maps and lists to genrules so that any map/slice order leak can show."""
    ts = [(p, t) for p, t in rs.all_targets(spec) if t["kind"] == "genrule"]
    for p, t in ts:
        if rng.chance(0.6):
            t["env"] = {"EV_%s_%d" % (t["name"].upper(), i): "v%d" % rng.intn(50) for i in range(rng.rng(3, 5))}
        if rng.chance(0.5):
            t["labels"] = ["lab%d" % rng.intn(9) for _ in range(rng.rng(2, 4))]
        if rng.chance(0.3) and t["srcs"]:
            t["named_srcs"] = True
        if rng.chance(0.3):
            t["pass_env"] = ["PE_A", "PE_B", "PE_C"]
        if rng.chance(0.3):
            # per-configuration commands with no entry for the active configuration: the fallback choice
            # must be the same in every run
            t["cmd_configs"] = rng.sample(["dbg", "cover", "asan", "zz", "aa"], rng.rng(2, 4))
    return spec


def hash_lines(stdout):
    """Canonical form of `plz hash` output: per-label blocks, sorted by label (the command prints
    labels in command-line order, which the check permutes on purpose)."""
    blocks = {}
    cur = None
    for l in stdout.splitlines():
        if not l.strip() or "total time" in l:
            continue
        st = l.strip()
        if l.startswith("//") and st.endswith(":"):
            cur = st[:-1]
            blocks.setdefault(cur, [])
        elif l.startswith("  //") and ": " in st:
            lab, h = st.rsplit(": ", 1)
            blocks.setdefault(lab, []).append("hash " + h)
        elif cur is not None:
            blocks[cur].append(st)
        else:
            blocks.setdefault("?", []).append(st)
    return [[k] + blocks[k] for k in sorted(blocks)]


def gen_case_c07(seed, tier):
    rng = Rng(seed)
    spec = rs.gen_repo(rng, n_targets=(4, 12), n_pkgs=(2, 4), dep_density=0.55, use_defs_p=0.3, max_fanin=6)
    enrich_for_hashing(rng, spec)
    if rng.chance(0.4):
        add_require_provide(rng, spec)
    spec["config"]["hash"] = rng.choice(["sha1", "sha256", "blake3", "xxhash", "crc32", "crc64"])
    labs = [rs.label(p, t["name"]) for p, t in rs.all_targets(spec)]
    r2 = Rng(subseed(seed, "c07-package"))
    users = [p for p in sorted(spec["pkgs"]) if spec["pkgs"][p].get("use_defs")]
    if spec.get("defs") and users and r2.chance(0.7):
        # a configuration value introduced by the subincluded file, overridden per package with package();
        # every such package has a target whose command embeds the value it sees
        spec["defs_extra"] = 'CONFIG.setdefault("TOOLCHAIN", {"CC": "gcc", "OPT": "-O1"})\n'
        for p in users:
            pk = spec["pkgs"][p]
            if r2.chance(0.5):
                pk["raw_after_subinclude"] = 'package(toolchain = {"CC": "cc-%s", "OPT": "-O%d"})\n\n' % (p.replace("/", "-"), r2.intn(4))
            pk["raw_suffix"] = (pk.get("raw_suffix") or "") + 'genrule(\n    name = "tc",\n    outs = ["tc.out"],\n    cmd = "echo \'%s\' > $OUT" % str(CONFIG.TOOLCHAIN),\n    visibility = ["PUBLIC"],\n)\n'
            labs.append(rs.label(p, "tc"))
    nrun = 6 if tier == "quick" else 16
    runs = []
    detailed = rng.chance(0.5)
    for j in range(nrun):
        order = list(labs)
        rng.shuffle(order)
        if j > 0 and j % 3 == 2:
            # a subset only: what else is parsed and hashed in the same invocation must not matter
            order = order[:r2.rng(1, max(1, len(order) - 1))]
        threads = [1, 16][j % 2]
        args = ["hash"] + (["--detailed"] if detailed else []) + order + BASE_ARGS + ["-n", str(threads)]
        runs.append({"args": args, "seed": subseed(seed, "run%d" % j), "policy": "", "fresh": rng.chance(0.6)})
    return {"spec": spec, "runs": runs}


def exec_case_c07(bindir, case):
    out = []
    stats = {"sched_steps": 0, "policies": {}, "hash_fn": {case["spec"]["config"]["hash"]: 1}, "detailed_runs": 0}
    sigs = []
    ref = None
    with Scratch("c07") as sc:
        repo = sc.path("repo")
        log = sc.path("log")
        os.makedirs(repo)
        os.makedirs(sc.path("home"))
        rs.materialise(case["spec"], repo, log)
        for j, run in enumerate(case["runs"]):
            if run.get("fresh", True):
                shutil.rmtree(os.path.join(repo, "plz-out"), ignore_errors=True)
            res = run_plz(bindir, repo, run["args"], run["seed"], sc.path("home"), sc.path("trace%d" % j),
                          policy=run.get("policy", ""), choices=run.get("choices"), env_extra={"PE_A": "1", "PE_B": "2", "PE_C": "3"})
            st = res.stats
            stats["sched_steps"] += st.get("steps", 0)
            pol = st.get("policy", "?")
            stats["policies"][pol] = stats["policies"].get(pol, 0) + 1
            if "--detailed" in run["args"]:
                stats["detailed_runs"] += 1
            sigs.append(sig(res.trace_digest()))
            if res.exit == simlib.EXIT_HANG:
                out.append(("hang", "plz hash did not terminate: %s" % res.sim_fail, j, dict(run, choices=res.choices())))
                break
            if res.exit != 0:
                out.append(("hash-failed", "plz hash exited %d: %s" % (res.exit, res.stderr[-600:]), j, dict(run, choices=res.choices())))
                break
            hl = hash_lines(res.stdout)
            if ref is None:
                ref = (j, hl, dict(run, choices=res.choices()))
            elif [b for b in hl if b not in ref[1]]:
                # (a run may ask for a subset of the labels: every block it prints must equal the reference's)
                refd = {b[0]: b for b in ref[1]}
                diff = [(refd.get(b[0]), b) for b in hl if b not in ref[1]][:4]
                out.append(("hash-differs", "run %d and run %d of the same repository print different hashes: %s" % (ref[0], j, diff), j, dict(run, choices=res.choices())))
                case["ref_run"] = ref[2]
                break
    return out, stats, sigs


def case_c07(bindir, seed, index, tier, extra):
    r = CaseResult()
    case = gen_case_c07(seed, tier)
    vs, stats, sigs = exec_case_c07(bindir, case)
    r.evals = len(case["runs"]) if not vs else vs[0][2] + 1
    r.stats = stats
    r.sigs = sigs
    if index < 2:
        r.sample = {"hash_fn": case["spec"]["config"]["hash"], "runs": [x["args"][:6] for x in case["runs"][:3]]}
    for (c, d, j, run2) in vs[:1]:
        runs = [case.get("ref_run") or case["runs"][0], run2] if c == "hash-differs" else [run2]
        r.violations.append(Violation(c, d, {"engine": "schedsim", "case": {"spec": case["spec"], "runs": runs}}))
    return r


def replay_c07(bindir, rp):
    vs, _, _ = exec_case_c07(bindir, rp["case"])
    return [(c, d) for (c, d, j, r) in vs]


# ================================================================================================
# C17: packages cannot observe or mutate each other's values

C17_DEFS = '''LIST_G = ["c", "a", "b"]
NEST_G = [["z", "y"], ["x", "w"]]
DICT_G = {"k": ["x", "y"], "n": {"m": "v"}}
FILT_G = [v for v in ["a", "b", "c", "d", "e"] if v != "e" and v != "d"]
SLICE_G = ["p", "q", "r", "s"][:2]
NUMS_G = [n for n in [1, 2, 3, 4, 5, 6, 7] if n < 4]
CONFIG.setdefault("TOOLCHAIN", {"CC": "gcc", "OPT": "-O1"})
CONFIG.setdefault("TCLIST", ["-a", "-b"])

def dfltd(d = {"a": "b", "l": ["m", "n"]}):
    return d

def dfltl(l = ["p", "q"]):
    return l

def glist():
    return LIST_G

def gnest():
    return NEST_G[0]

def gdict():
    return DICT_G

def gdictk():
    return DICT_G["k"]

def lit():
    return ["c", "a", "b"]

def nested():
    return [["z", "y"], ["x", "w"]]

def litd():
    return {"p": ["q", "r"], "s": "t"}

def mixed(extra = None):
    return [1, "two", ["three", 3]]

def observe():
    return "|".join([str(lit()), str(nested()), str(litd()), str(mixed()), str(LIST_G), str(NEST_G), str(DICT_G),
                     str(FILT_G), str(SLICE_G), str(NUMS_G), str(FILT_G + ["obs"]), str(SLICE_G + ["obs"]), str(NUMS_G + [0]),
                     str(glist()), str(gnest()), str(gdict()), str(CONFIG.TOOLCHAIN), str(CONFIG.BUILD_FILE_NAMES), str(CONFIG.TCLIST), str(dfltd()), str(dfltl()), str(CONFIG.get("NEWKEY", "unset")), str(CONFIG.get("NEWKEY2", "unset"))])
'''

# mutation / re-ordering idioms; each is a few statements using a fresh variable prefix
C17_IDIOMS = [
    ('x = lit()', 'x[0] = "MUT_%s"'),
    ('x = lit()', 'x[2] = "MUT_%s"'),
    ('x = nested()', 'y = x[0]', 'y[1] = "MUT_%s"'),
    ('x = nested()', 'x[1] = ["MUT_%s"]'),
    ('x = reversed(lit())',),
    ('x = sorted(lit())',),
    ('x = sorted(lit(), reverse = True)',),
    ('x = reversed(nested())',),
    ('x = litd()', 'x["new"] = "MUT_%s"'),
    ('x = litd()', 'y = x["p"]', 'y[0] = "MUT_%s"'),
    ('x = mixed()', 'y = x[2]', 'y[0] = "MUT_%s"'),
    ('x = mixed()', 'x[0] = 99'),
    ('x = lit()', 'x += ["MUT_%s"]'),
    ('x = [v for v in lit()]', 'x[0] = "MUT_%s"'),
    ('x = lit() + ["tail"]', 'x[0] = "MUT_%s"'),
    ('x = sorted(LIST_G)',),
    ('x = reversed(LIST_G)',),
    ('x = sorted(NEST_G)',),
    ('x = LIST_G', 'x[0] = "MUT_%s"'),
    ('x = NEST_G[0]', 'x[0] = "MUT_%s"'),
    ('x = DICT_G["k"]', 'x[0] = "MUT_%s"'),
    ('x = DICT_G', 'x["k2"] = "MUT_%s"'),
    ('x = DICT_G["n"]', 'x["m"] = "MUT_%s"'),
    ('x = lit()', 'y = x', 'y[1] = "MUT_%s"'),
    ('x = {"a": lit()}', 'y = x["a"]', 'y[0] = "MUT_%s"'),
    # concatenation with an exported list must give a list of one's own
    ('x = FILT_G + ["MUT_%s"]',),
    ('x = FILT_G + ["own"]', 'x[0] = "MUT_%s"'),
    ('x = SLICE_G + ["MUT_%s"]',),
    ('x = SLICE_G + ["own"]', 'x[1] = "MUT_%s"'),
    ('x = NUMS_G + [99]', 'x[0] = 98'),
    ('x = LIST_G + ["own"]', 'x[0] = "MUT_%s"'),
    ('x = FILT_G + SLICE_G', 'x[0] = "MUT_%s"'),
    ('x = sorted(FILT_G + ["MUT_%s"])',),
    ('x = [v for v in FILT_G]', 'x[0] = "MUT_%s"'),
    ('x = FILT_G[:2]', 'x[0] = "MUT_%s"'),
    # module-level values handed out by the build_defs' own functions
    ('x = glist()', 'x[0] = "MUT_%s"'),
    ('x = gnest()', 'x[1] = "MUT_%s"'),
    ('x = gdict()', 'x["new"] = "MUT_%s"'),
    ('x = gdictk()', 'x[0] = "MUT_%s"'),
    ('x = sorted(glist())',),
    ('x = glist() + ["own"]', 'x[0] = "MUT_%s"'),
    # per-package configuration overrides of a dict-valued entry defined by the subinclude
    ('package(toolchain = {"opt": "MUT_%s"})',),
    ('package(toolchain = {"cc": "MUT_%s", "extra": "x"})',),
    ('x = CONFIG.TOOLCHAIN', 'x["OPT"] = "MUT_%s"'),
    # list-valued configuration: one set by the subinclude, one that comes from the .plzconfig itself
    ('x = CONFIG.TCLIST', 'x[0] = "MUT_%s"'),
    ('x = sorted(CONFIG.TCLIST)',),
    ('x = CONFIG.TCLIST + ["own"]', 'x[0] = "MUT_%s"'),
    ('x = CONFIG.BUILD_FILE_NAMES', 'x[0] = "MUT_%s"'),
    ('x = reversed(CONFIG.BUILD_FILE_NAMES)',),
    ('x = CONFIG.BUILD_FILE_NAMES + ["own"]', 'x[0] = "MUT_%s"'),
    ('CONFIG.TOOLCHAIN = {"CC": "MUT_%s"}',),
    # augmented assignment, loops over nested values, copies, new configuration keys
    ('x = LIST_G', 'x += ["MUT_%s"]'),
    ('x = nested()', 'x += [["MUT_%s"]]'),
    ('for v in NEST_G:\n    v[0] = "MUT_%s"',),
    ('for v in nested():\n    v[0] = "MUT_%s"',),
    ('x = DICT_G.copy()', 'y = x["k"]', 'y[0] = "MUT_%s"'),
    ('x = CONFIG.TOOLCHAIN.copy()', 'x["OPT"] = "MUT_%s"'),
    ('DICT_G.setdefault("zz", "MUT_%s")',),
    ('x = [LIST_G]', 'y = x[0]', 'y[0] = "MUT_%s"'),
    ('x = {"own": NEST_G}', 'y = x["own"]', 'z = y[0]', 'z[0] = "MUT_%s"'),
    ('CONFIG.setdefault("NEWKEY", "MUT_%s")',),
    ('CONFIG["NEWKEY2"] = "MUT_%s"',),
    ('CONFIG.setdefault("NEWKEY", ["MUT_%s"])', 'x = CONFIG.NEWKEY', 'x[0] = "again"'),
    # union / concatenation with an EMPTY operand must still give a value of one's own
    ('x = DICT_G | {}', 'x["k2"] = "MUT_%s"'),
    ('e = {}', 'x = gdict() | e', 'x["new"] = "MUT_%s"'),
    ('x = CONFIG.TOOLCHAIN | {}', 'x["OPT"] = "MUT_%s"'),
    ('x = DICT_G | {}', 'y = x["k"]', 'y[0] = "MUT_%s"'),
    # OPEN (DESIGN 12, wave 6): ('x = LIST_G + []', 'x[0] = "MUT_%s"') and ('e = []', 'x = glist() + e', 'x[0] = ...')
    # reproduce a genuine defect on the unchanged tree (pyList + empty list returns the shared list itself);
    # to be added together with its `fix:` commit or known-findings entry.
    # default argument values of the build_defs' functions
    ('x = dfltd()', 'x["a"] = "MUT_%s"'),
    ('x = dfltd()', 'y = x["l"]', 'y[0] = "MUT_%s"'),
    ('x = dfltl()', 'x[1] = "MUT_%s"'),
    ('x = sorted(dfltl())',),
    ('x = dfltl() + ["own"]', 'x[0] = "MUT_%s"'),
    ('CONFIG["TCLIST"] = ["MUT_%s"]',),
]


def gen_case_c17(seed, tier):
    rng = Rng(seed)
    npk = rng.rng(2, 5)
    pkgs = rng.sample(["a", "b", "c", "d", "e", "f"], npk)
    pkgs.sort()
    bodies = {}
    for p in pkgs:
        lines = ['subinclude("//defs:defs")']
        k = rng.choice([0, 1, 1, 2, 3])
        for j in range(k):
            idiom = rng.choice(C17_IDIOMS)
            for st in idiom:
                st = st.replace("x", "x%d" % j).replace("y", "y%d" % j) if False else st
                lines.append(st % p if "%s" in st else st)
        lines.append('text_file(name = "v", content = observe())')
        bodies[p] = "\n".join(lines) + "\n"
    nrun = 4 if tier == "quick" else 10
    runs = []
    for j in range(nrun):
        order = list(pkgs)
        rng.shuffle(order)
        runs.append({"order": order, "threads": rng.choice([1, 2, 4, 8]), "seed": subseed(seed, "run%d" % j)})
    return {"seed": seed, "pkgs": pkgs, "bodies": bodies, "runs": runs}


def c17_spec(case, only=None):
    spec = rs.new_spec()
    spec["pkgs"]["defs"] = {"files": {"defs.build_defs": C17_DEFS}, "targets": [], "raw_prefix": 'filegroup(name = "defs", srcs = ["defs.build_defs"], visibility = ["PUBLIC"])\n'}
    for p in case["pkgs"]:
        if only is None or p in only:
            spec["pkgs"][p] = {"files": {}, "targets": [], "raw_prefix": case["bodies"][p]}
    return spec


def c17_observe(res):
    """{label: content} from `plz query print` output, or an error signature."""
    out = {}
    cur = None
    for l in res.stdout.splitlines():
        if l.startswith("# //"):
            cur = l[2:].rstrip(":").strip()
        elif cur and l.strip().startswith("content ="):
            out[cur] = l.strip()
    return out


def exec_case_c17(bindir, case):
    import histlib as hl
    out = []
    w = hl.World(bindir, "c17")
    try:
        spec = c17_spec(case)
        w.write(spec)
        base = ["query", "print"]
        tail = BASE_ARGS
        solo = {}
        for p in case["pkgs"]:
            res, _ = w.plz(base + ["//%s:v" % p] + tail + ["-n", "1"], 1, policy="first")
            if res.exit == 0:
                solo["//%s:v" % p] = c17_observe(res).get("//%s:v" % p)
            else:
                solo["//%s:v" % p] = None   # this package does not parse on its own (e.g. it assigns to a frozen value)
        ok_pkgs = [p for p in case["pkgs"] if solo["//%s:v" % p] is not None]
        w.stats["packages_rejected_alone"] = len(case["pkgs"]) - len(ok_pkgs)
        if len(ok_pkgs) < 2:
            return out, w.stats, w.sigs
        for j, run in enumerate(case["runs"]):
            order = [p for p in run["order"] if p in ok_pkgs]
            args = base + ["//%s:v" % p for p in order] + tail + ["-n", str(run["threads"])]
            res = simlib.run_plz(bindir, w.repo, args, run["seed"], w.home, w.sc.path("jt%d" % j), policy=run.get("policy", ""), choices=run.get("choices"), extra_yields=True)
            w.stats["invocations"] += 1
            w.stats["sched_steps"] += res.stats.get("steps", 0)
            w.sigs.append(res.trace_digest())
            run2 = dict(run, choices=res.choices())
            if res.exit == simlib.EXIT_HANG:
                out.append(("hang", "joint parse did not terminate: %s" % res.sim_fail, run2))
                break
            if res.exit != 0:
                out.append(("joint-parse-fails", "every package parses alone, but parsing %s together exited %d: %s" % (order, res.exit, res.stderr[-500:]), run2))
                break
            obs = c17_observe(res)
            for p in order:
                lab = "//%s:v" % p
                if obs.get(lab) != solo[lab]:
                    out.append(("package-sees-foreign-mutation", "%s parsed together with %s (order %s, %d threads) defines %s, but parsed alone it defines %s" % (lab, [q for q in order if q != p], order, run["threads"], obs.get(lab), solo[lab]), run2))
                    break
            if out:
                break
        return out, w.stats, w.sigs
    finally:
        w.close()


def case_c17(bindir, seed, index, tier, extra):
    r = CaseResult()
    case = gen_case_c17(seed, tier)
    vs, stats, sigs = exec_case_c17(bindir, case)
    r.evals = stats["invocations"]
    r.stats = stats
    r.sigs = [sig(s) for s in sigs[len(case["pkgs"]):]]
    if index < 2:
        r.sample = {"bodies": case["bodies"], "runs": [x["order"] for x in case["runs"]]}
    for (c, d, run2) in vs[:1]:
        c2 = dict(case, runs=[run2])
        r.violations.append(Violation(c, d, {"engine": "schedsim", "case": c2}))
    return r


def replay_c17(bindir, rp):
    vs, _, _ = exec_case_c17(bindir, rp["case"])
    return [(c, d) for (c, d, r) in vs]


# ================================================================================================
# C31: concurrent plz invocations on one repository


def gen_case_c31(seed, tier):
    rng = Rng(seed)
    spec = rs.gen_repo(rng, n_targets=(3, 9), n_pkgs=(1, 3), dep_density=0.6, use_defs_p=0.2, max_fanin=4, allow_filegroup=rng.chance(0.5))
    spec["config"]["xattrs"] = rng.chance(0.8)
    if rng.chance(0.5):
        # one directory cache for all invocations (they are the same checkout, so the per-target lock
        # serialises their stores of a key; what races is one invocation restoring while another reads)
        spec["config"]["cache"] = "@CACHE@"
        spec["config"]["dircompress"] = rng.chance(0.3)
    ts = rs.all_targets(spec)
    k = rng.rng(2, 4)
    multi = []
    for i in range(k):
        r = rng.intn(10)
        if r < 5:
            n = rng.rng(1, 2)
            multi.append([rs.label(p, t["name"]) for p, t in rng.sample(ts, min(n, len(ts)))])
        elif r < 7:
            p, _ = rng.choice(ts)
            multi.append(["//%s:all" % p])
        else:
            multi.append(["//..."])
    same = rng.chance(0.35)
    if same:
        # everybody asks for the same thing (two terminals, a watcher and a CI script...): every target is
        # contended, and with a cache one invocation's restore can meet another's reads
        multi = [list(multi[0]) if multi[0] != [] else ["//..."] for _ in range(k)]
        if rng.chance(0.6):
            multi = [["//..."] for _ in range(k)]
        if rng.chance(0.7):
            spec["config"]["cache"] = "@CACHE@"
    nrun = 3 if tier == "quick" else 8
    runs = []
    for j in range(nrun):
        runs.append({"seed": subseed(seed, "run%d" % j), "offsets": [rng.intn(60) if rng.chance(0.6) else 0 for _ in range(k)], "threads": rng.choice([1, 2, 4]), "prebuilt": (not same) and rng.chance(0.25)})
    return {"seed": seed, "spec": spec, "multi": multi, "runs": runs}


def exec_case_c31(bindir, case):
    import histlib as hl
    out = []
    w = hl.World(bindir, "c31")
    try:
        spec = case["spec"]
        if spec["config"].get("cache") == "@CACHE@":
            spec = rs.clone(spec)
            spec["config"]["cache"] = w.sc.path("cache")
        w.write(spec)
        union = []
        for m in case["multi"]:
            for l in m:
                if l not in union:
                    union.append(l)
        clean = w.clean_build(spec, union)
        if clean["exit"] != 0:
            return out, w.stats, w.sigs
        for j, run in enumerate(case["runs"]):
            shutil.rmtree(os.path.join(w.repo, "plz-out"), ignore_errors=True)
            if j % 2 == 0:
                shutil.rmtree(w.sc.path("cache"), ignore_errors=True)   # every other run starts with a cold cache
            if os.path.exists(w.log):
                os.remove(w.log)
            if run.get("prebuilt"):
                # one of the requests has been built before the concurrent invocations start
                w.plz(["build"] + case["multi"][0] + BASE_ARGS, subseed(run["seed"], "pre"), policy="first")
                if os.path.exists(w.log):
                    os.remove(w.log)
            args = ["build"] + union + BASE_ARGS + ["-n", str(run["threads"])]
            res = simlib.run_plz(bindir, w.repo, args, run["seed"], w.home, w.sc.path("mt%d" % j), policy=run.get("policy", ""), choices=run.get("choices"),
                                 multi=case["multi"], multi_offsets=run["offsets"], timeout=300)
            w.stats["invocations"] += 1
            w.stats["logical_invocations"] = w.stats.get("logical_invocations", 0) + len(case["multi"])
            w.stats["sched_steps"] += res.stats.get("steps", 0)
            for pk, n in (res.stats.get("probes") or {}).items():
                w.stats.setdefault("probes", {})
                w.stats["probes"][pk] = w.stats["probes"].get(pk, 0) + n
            w.sigs.append(res.trace_digest())
            run2 = dict(run, choices=res.choices())
            if res.exit == simlib.EXIT_HANG:
                out.append(("hang", "concurrent invocations did not terminate (deadlock?): %s" % res.sim_fail, run2))
                break
            if res.exit != 0:
                codes = [l for l in res.trace_lines() if l.startswith("M ")]
                out.append(("invocation-failed", "%d concurrent invocations of %s: exit codes %s; stderr: %s" % (len(case["multi"]), case["multi"], codes, res.stderr[-700:]), run2))
                break
            diffs, kinds = w.compare_outputs(clean)
            if diffs:
                out.append(("corrupt-output", "after %d concurrent invocations of %s the outputs differ from a clean build: %s" % (len(case["multi"]), case["multi"], " | ".join(diffs[:3])), run2))
                break
            # the same target's command never runs twice at once
            openl = set()
            for l in read_log(w.log):
                if l[0] == "S":
                    if l[1] in openl:
                        out.append(("command-overlap", "the command of %s was started while another execution of it was still running" % l[1], run2))
                        break
                    openl.add(l[1])
                elif l[0] == "E":
                    openl.discard(l[1])
            if out:
                break
        return out, w.stats, w.sigs
    finally:
        w.close()


def case_c31(bindir, seed, index, tier, extra):
    r = CaseResult()
    case = gen_case_c31(seed, tier)
    vs, stats, sigs = exec_case_c31(bindir, case)
    r.evals = stats["invocations"]
    r.stats = stats
    r.sigs = [sig(s) for s in sigs]
    if index < 2:
        r.sample = {"multi": case["multi"], "runs": [{"offsets": x["offsets"], "threads": x["threads"]} for x in case["runs"]]}
    for (c, d, run2) in vs[:1]:
        r.violations.append(Violation(c, d, {"engine": "schedsim", "case": dict(case, runs=[run2])}))
    return r


def replay_c31(bindir, rp):
    vs, _, _ = exec_case_c31(bindir, rp["case"])
    return [(c, d) for (c, d, r) in vs]
