"""Schedule-space checks on whole plz invocations: C04 (each action once, after deps), C05
(termination, faithful failure), C07 (hash determinism)."""
import json, os, shutil

import repospec as rs
import simlib
from framework import CaseResult, Violation, sig
from simlib import Rng, Scratch, run_plz, subseed

BASE_ARGS = ["-p", "-v", "1", "--noupdate"]


def read_log(path):
    try:
        with open(path) as f:
            return [l.split() for l in f.read().splitlines() if l.strip()]
    except OSError:
        return []


def cmd_targets(spec):
    """labels of targets whose build runs a logged command"""
    r = set()
    for p, t in rs.all_targets(spec):
        if t["kind"] in ("genrule",) or (t["kind"] == "gentest" and t.get("outs")):
            r.add(rs.label(p, t["name"]))
    if spec.get("defs"):
        r.add("//defs:gen")
    return r


def cmd_preds(spec, lab, cmds, memo=None):
    """command-running predecessors of lab, looking through non-command targets"""
    if memo is None:
        memo = {}
    if lab in memo:
        return memo[lab]
    memo[lab] = set()
    ft = rs.find_target(spec, lab)
    res = set()
    if ft:
        for d in rs.direct_deps(spec, ft[0], ft[1]):
            if d in cmds:
                res.add(d)
            else:
                res |= cmd_preds(spec, d, cmds, memo)
    memo[lab] = res
    return res


def request_closure(spec, req):
    labs = rs.closure(spec, rs.expand_request(spec, req))
    # parse-time dependency on //defs:gen for packages that subinclude it
    if spec.get("defs"):
        for l in list(labs):
            ft = rs.find_target(spec, l)
            if ft and spec["pkgs"][ft[0]].get("use_defs") and "//defs:gen" not in labs:
                labs.append("//defs:gen")
    return labs


def read_trace_file(path):
    try:
        with open(path) as f:
            return json.load(f)
    except (OSError, ValueError):
        return None


def oracle_c04(spec, req, res, log, tf_events, fresh=True):
    """Returns list of (class, detail)."""
    v = []
    cmds = cmd_targets(spec)
    starts = {}
    ends = {}
    for i, l in enumerate(log):
        if l[0] == "S":
            starts.setdefault(l[1], []).append(i)
        elif l[0] == "E":
            ends.setdefault(l[1], []).append((i, l[2] if len(l) > 2 else "ok"))
    for lab, ss in sorted(starts.items()):
        if len(ss) > 1:
            v.append(("ran-twice", "command of %s started %d times in one invocation" % (lab, len(ss))))
    memo = {}
    for lab, ss in sorted(starts.items()):
        for d in sorted(cmd_preds(spec, lab, cmds, memo)):
            oks = [i for (i, st) in ends.get(d, []) if st == "ok"]
            if not oks or min(oks) > ss[0]:
                v.append(("started-before-dep", "%s started at log line %d before its dependency %s finished (%s)" % (lab, ss[0], d, ends.get(d))))
        if lab not in ends or max(i for i, _ in ends[lab]) < ss[-1]:
            v.append(("start-without-end", "%s has a start without an end" % lab))
    if res.exit != 0:
        v.append(("unexpected-exit", "exit code %d on a buildable repository; stderr tail: %s" % (res.exit, res.stderr[-800:])))
    else:
        want = [l for l in request_closure(spec, req) if l in cmds]
        if fresh:
            for l in want:
                if l not in starts:
                    v.append(("never-ran", "%s is in the requested closure, plz-out was empty, exit 0, but its command never ran" % l))
        extra = [l for l in starts if l not in set(request_closure(spec, req))]
        for l in sorted(extra):
            v.append(("ran-unrequested", "%s ran but is not in the closure of the request" % l))
        if tf_events is not None:
            term = {}
            for e in tf_events:
                if e.get("cat") == "Build" and e.get("ph") == "E":
                    term.setdefault(e["name"], []).append(e["args"].get("description", ""))
            for l in request_closure(spec, req):
                n = len(term.get(l, []))
                if n != 1:
                    v.append(("reported-%d-times" % n if n < 3 else "reported-many-times", "%s was reported with a terminal build status %d times: %s" % (l, n, term.get(l))))
    return v


def pick_request(rng, spec):
    ts = rs.all_targets(spec)
    r = rng.intn(10)
    if r < 5:
        p, t = ts[-1]
        req = [rs.label(p, t["name"])]
        if rng.chance(0.4) and len(ts) > 1:
            p2, t2 = rng.choice(ts)
            l2 = rs.label(p2, t2["name"])
            if l2 not in req:
                req.append(l2)
        return req
    if r < 7:
        p, _ = rng.choice(ts)
        return ["//%s:all" % p]
    return ["//..."]


def gen_case_c04(seed, tier):
    rng = Rng(seed)
    spec = rs.gen_repo(rng, n_targets=(4, 16), n_pkgs=(1, 4), dep_density=0.62, use_defs_p=0.35, max_fanin=12)
    # require/provide on some pairs
    ts = rs.all_targets(spec)
    if rng.chance(0.3) and len(ts) >= 3:
        add_require_provide(rng, spec)
    req = pick_request(rng, spec)
    nrun = 3 if tier == "quick" else 8
    runs = []
    for j in range(nrun):
        threads = rng.choice([1, 2, 3, 4, 8, 16])
        args = ["build"] + req + BASE_ARGS + ["-n", str(threads)]
        if rng.chance(0.3):
            args.append("--keep_going")
        runs.append({"args": args, "seed": subseed(seed, "run%d" % j), "policy": "", "num_stalls": 1 if rng.chance(0.25) else 0})
    return {"spec": spec, "req": req, "runs": runs}


def add_require_provide(rng, spec):
    """t_prov provides {"lang": t_alt}; a consumer that requires ["lang"] and depends on t_prov gets t_alt instead."""
    ts = [(p, t) for p, t in rs.all_targets(spec) if t["kind"] == "genrule"]
    ts.sort(key=lambda pt: int(pt[1]["name"][1:]))  # creation order is a topological order
    if len(ts) < 3:
        return
    # choose provider P (index i), alternative A (index < i), consumer C (index > i) that depends on P
    for _ in range(10):
        i = rng.rng(1, len(ts) - 2)
        pp, pt = ts[i]
        ap, at = ts[rng.intn(i)]
        cons = [(p, t) for p, t in ts[i + 1:] if ("t:" + rs.label(pp, pt["name"])) in t["srcs"]]
        if not cons:
            continue
        cp, ct = rng.choice(cons)
        pt["provides"] = {"lang": rs.label(ap, at["name"])}
        ct["requires"] = ["lang"]
        return


def effective_spec(spec):
    """Applies require/provide substitution to dependency edges (for the oracle's graph)."""
    s = rs.clone(spec)
    for p, t in rs.all_targets(s):
        if t.get("requires"):
            new = []
            for x in t["srcs"]:
                if x.startswith("t:"):
                    ft = rs.find_target(s, rs.norm_label(p, x[2:]))
                    if ft and ft[1].get("provides"):
                        rep = None
                        for r in t["requires"]:
                            if r in ft[1]["provides"]:
                                rep = ft[1]["provides"][r]
                        if rep:
                            new.append("t:" + rep)
                            continue
                new.append(x)
            t["srcs"] = new
    return s


def exec_case_c04(bindir, case, only_run=None):
    """Runs every run of a case on a fresh plz-out. Returns (violations [(cls, detail, run_index, result)], stats, sigs)."""
    spec = case["spec"]
    espec = effective_spec(spec)
    out = []
    stats = {"sched_steps": 0, "sim_ms": 0, "stalls_fired": 0, "choices2plus": 0, "policies": {}}
    sigs = []
    with Scratch("c04") as sc:
        repo = sc.path("repo")
        log = sc.path("log")
        os.makedirs(repo)
        os.makedirs(sc.path("home"))
        rs.materialise(spec, repo, log)
        for j, run in enumerate(case["runs"]):
            if only_run is not None and j != only_run:
                continue
            shutil.rmtree(os.path.join(repo, "plz-out"), ignore_errors=True)
            if os.path.exists(log):
                os.remove(log)
            tf = sc.path("tf%d.json" % j)
            res = run_plz(bindir, repo, run["args"] + ["--trace_file", tf], run["seed"], sc.path("home"), sc.path("trace%d" % j),
                          policy=run.get("policy", ""), choices=run.get("choices"), stalls=run.get("stalls"),
                          num_stalls=run.get("num_stalls", 0), horizon=run.get("horizon", 0))
            if res.exit == simlib.EXIT_HANG:
                run2 = dict(run)
                run2["choices"] = res.choices()
                run2["stalls"] = res.stalls()
                out.append(("hang", "simulated invocation did not terminate: %s" % res.sim_fail, j, run2))
                break
            vs = oracle_c04(espec, case["req"], res, read_log(log), read_trace_file(tf))
            st = res.stats
            stats["sched_steps"] += st.get("steps", 0)
            stats["sim_ms"] += st.get("sim_ms", 0)
            stats["stalls_fired"] += st.get("stalls", 0)
            stats["choices2plus"] += st.get("choices2plus", 0)
            pol = st.get("policy", "?")
            stats["policies"][pol] = stats["policies"].get(pol, 0) + 1
            for k, n in (st.get("probes") or {}).items():
                stats.setdefault("probes", {})
                stats["probes"][k] = stats["probes"].get(k, 0) + n
            if st.get("max_runnable", 0) >= 2 and st.get("choices2plus", 0) >= 10:
                sigs.append(sig(res.trace_digest()))
            if vs:
                run2 = dict(run)
                run2["choices"] = res.choices()
                run2["stalls"] = res.stalls()
                for (c, d) in vs:
                    out.append((c, d, j, run2))
                break
    return out, stats, sigs


def case_c04(bindir, seed, index, tier, extra):
    r = CaseResult()
    case = gen_case_c04(seed, tier)
    vs, stats, sigs = exec_case_c04(bindir, case)
    r.evals = len(case["runs"]) if not vs else vs[0][2] + 1
    r.stats = stats
    r.sigs = sigs
    if index < 3:
        r.sample = {"request": case["req"], "targets": [rs.label(p, t["name"]) + " <- " + ",".join(t["srcs"]) for p, t in rs.all_targets(case["spec"])], "runs": [x["args"] for x in case["runs"]]}
    for (c, d, j, run2) in vs[:1]:
        rcase = {"spec": case["spec"], "req": case["req"], "runs": [run2 if isinstance(run2, dict) else case["runs"][j]]}
        rcase = minimise_c04(bindir, rcase, c)
        r.violations.append(Violation(c, d, {"engine": "schedsim", "case": rcase}))
    return r


def minimise_c04(bindir, case, cls):
    """Greedy shrink: drop targets (last first) while the same violation class persists under the
    recorded request; then shorten the choice list."""
    def fails(c):
        try:
            vs, _, _ = exec_case_c04(bindir, c)
        except simlib.Infra:
            return False
        return any(v[0] == cls for v in vs)
    # the recorded choices only make sense for the exact spec; shrink the schedule prefix first
    run = case["runs"][0]
    ch = run.get("choices")
    if ch and fails(case):
        lo, hi = 0, len(ch)
        while lo < hi:
            mid = (lo + hi) // 2
            c2 = json.loads(json.dumps(case))
            c2["runs"][0]["choices"] = ch[:mid]
            if fails(c2):
                hi = mid
            else:
                lo = mid + 1
        c2 = json.loads(json.dumps(case))
        c2["runs"][0]["choices"] = ch[:hi]
        if fails(c2):
            case = c2
    return case


def replay_c04(bindir, rp):
    vs, _, _ = exec_case_c04(bindir, rp["case"])
    return [(c, d) for (c, d, j, r) in vs]
