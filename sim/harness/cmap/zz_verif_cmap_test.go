//go:build verif

package cmap
