//go:build verif

package cmap

// Simulation harness for the awaitable map (C15): seeded interleavings of bounded concurrent
// histories, recorded with scheduler step stamps and checked offline by tools/linchk (porcupine),
// plus online wake-up invariants.

import (
	"encoding/json"
	"errors"
	"fmt"
	"os"
	"strings"
	"sync/atomic"
	"testing"
	"testing/synctest"
	"time"

	"github.com/thought-machine/please/src/verifsim"
)

type vmRun struct {
	Seed   uint64          `json:"seed"`
	Start  int             `json:"start"`
	Count  int             `json:"count"`
	Out    string          `json:"out"`
	Replay json.RawMessage `json:"replay"`
}

type vmOp struct {
	Kind string `json:"kind"` // add addorget set get getorwait contains values waitget
	Key  int    `json:"key"`
	Val  int    `json:"val,omitempty"`
}

type vmParams struct {
	Seed    uint64   `json:"seed"`
	Shards  uint64   `json:"shards"`
	Keys    int      `json:"keys"`
	Clients [][]vmOp `json:"clients"`
	ErrMap  bool     `json:"errmap"`
	Policy  string   `json:"policy"`
	Choices []int    `json:"choices"`
}

// vmEvent is one completed (or pending) operation of the recorded history.
type vmEvent struct {
	Client  int    `json:"client"`
	Kind    string `json:"kind"`
	Key     int    `json:"key"`
	Val     int    `json:"val"`
	Out     int    `json:"out"`     // value returned
	OutB    bool   `json:"outb"`    // bool returned (inserted / contains / first)
	Wait    bool   `json:"wait"`    // GetOrWait returned a channel
	Called  bool   `json:"called"`  // AddOrGet/GetOrSet ran its function
	Vals    []int  `json:"vals"`    // Values()
	Call    int64  `json:"call"`
	Ret     int64  `json:"ret"`     // -1: never returned
	WokenAt int64  `json:"woken_at"` // waitget: stamp at which the wait channel was observed closed
}

type vmResult struct {
	Index     int                    `json:"index"`
	Seed      uint64                 `json:"seed"`
	Params    vmParams               `json:"params"`
	History   []vmEvent              `json:"history"`
	Violation *vmViolation           `json:"violation,omitempty"`
	Stats     map[string]int64       `json:"stats"`
	Overlaps  int                    `json:"overlaps"`
}

type vmViolation struct {
	Class  string `json:"class"`
	Detail string `json:"detail"`
}

func genVM(seed uint64) vmParams {
	r := verifsim.NewRand(verifsim.SubSeed(seed, "c15"))
	p := vmParams{Seed: seed, Shards: []uint64{1, 2, 4}[r.Intn(3)], Keys: 1 + r.Intn(3), ErrMap: r.Intn(5) == 0}
	nc := 2 + r.Intn(4)
	val := 100
	waited := map[int]bool{}
	budget := 26
	for c := 0; c < nc; c++ {
		var ops []vmOp
		n := 2 + r.Intn(5)
		for i := 0; i < n && budget > 0; i++ {
			budget--
			k := r.Intn(p.Keys)
			val++
			if p.ErrMap {
				// Only GetOrSet, the operation the property names and the only one please's call sites use
				// (a plain ErrMap.Get of an absent key leaves a placeholder nobody is "first" for, after
				// which GetOrSet callers of that key wait forever: an API hazard outside the stated set).
				ops = append(ops, vmOp{Kind: "getorset", Key: k, Val: val})
				continue
			}
			switch x := r.Intn(20); {
			case x < 4:
				ops = append(ops, vmOp{Kind: "add", Key: k, Val: val})
			case x < 6:
				ops = append(ops, vmOp{Kind: "addorget", Key: k, Val: val})
			case x < 8:
				ops = append(ops, vmOp{Kind: "set", Key: k, Val: val})
			case x < 11:
				ops = append(ops, vmOp{Kind: "get", Key: k})
			case x < 14:
				ops = append(ops, vmOp{Kind: "getorwait", Key: k})
			case x < 16:
				ops = append(ops, vmOp{Kind: "contains", Key: k})
			case x < 17:
				ops = append(ops, vmOp{Kind: "values"})
			default:
				ops = append(ops, vmOp{Kind: "waitget", Key: k})
				waited[k] = true
			}
		}
		p.Clients = append(p.Clients, ops)
	}
	if !p.ErrMap {
		// the closer: every key somebody may wait for is eventually set, so every waiter must be released
		var ops []vmOp
		for k := 0; k < p.Keys; k++ {
			if waited[k] {
				val++
				kind := "set"
				if r.Intn(2) == 0 {
					kind = "add"
				}
				ops = append(ops, vmOp{Kind: kind, Key: k, Val: val})
			}
		}
		if len(ops) > 0 {
			p.Clients = append(p.Clients, ops)
		}
	}
	return p
}

func stamp(ret bool) int64 {
	s := int64(verifsim.Step()) * 2
	if ret {
		s++
	}
	return s
}

func scenarioVM(t *testing.T, seed uint64, replay *vmParams) vmResult {
	p := genVM(seed)
	if replay != nil {
		p = *replay
	}
	res := vmResult{Seed: seed, Stats: map[string]int64{}}
	hasher := func(k int) uint64 { return uint64(k) }
	var hist [][]vmEvent = make([][]vmEvent, len(p.Clients))
	var fcalls [8]atomic.Int64
	var hung bool
	var hungWhy string
	var choices []int
	func() {
		defer func() {
			if r := recover(); r != nil {
				if !strings.Contains(fmt.Sprint(r), "deadlock") && !strings.Contains(fmt.Sprint(r), "blocked") {
					panic(r)
				}
			}
		}()
		synctest.Test(t, func(t *testing.T) {
			verifsim.Enable()
			s := verifsim.NewScheduler(verifsim.Config{Seed: seed, Policy: p.Policy, Choices: p.Choices, MaxSteps: 100000, MaxSimTime: time.Hour, Record: true, SoftHang: true, MaxIdle: 3 * time.Second})
			m := New[int, int](p.Shards, hasher)
			em := NewErrMap[int, int](p.Shards, hasher, nil)
			var tasks []verifsim.TaskSpec
			for ci, ops := range p.Clients {
				ci, ops := ci, ops
				tasks = append(tasks, verifsim.TaskSpec{ID: fmt.Sprintf("c%d", ci), Fn: func() {
					for _, op := range ops {
						verifsim.Yield("op")
						ev := vmEvent{Client: ci, Kind: op.Kind, Key: op.Key, Val: op.Val, Call: stamp(false), Ret: -1}
						hist[ci] = append(hist[ci], ev)
						e := &hist[ci][len(hist[ci])-1]
						switch op.Kind {
						case "add":
							e.OutB = m.Add(op.Key, op.Val)
						case "addorget":
							e.Out, e.OutB = m.AddOrGet(op.Key, func() int { e.Called = true; return op.Val })
						case "set":
							m.Set(op.Key, op.Val)
						case "get":
							if p.ErrMap {
								v, err := em.Get(op.Key)
								e.Out = v
								e.OutB = err != nil
							} else {
								e.Out = m.Get(op.Key)
							}
						case "getorwait":
							v, w, first := m.GetOrWait(op.Key)
							e.Out, e.Wait, e.OutB = v, w != nil, first
						case "contains":
							e.OutB = m.Contains(op.Key)
						case "values":
							e.Vals = m.Values()
						case "waitget":
							// the usage pattern of the build graph: wait until present, then read
							v, w, first := m.GetOrWait(op.Key)
							e.Out, e.Wait, e.OutB = v, w != nil, first
							e.Ret = stamp(true)
							if w != nil {
								ev2 := vmEvent{Client: ci, Kind: "woken", Key: op.Key, Call: stamp(false), Ret: -1}
								hist[ci] = append(hist[ci], ev2)
								e2 := &hist[ci][len(hist[ci])-1]
								verifsim.Yield("wait")
								<-w
								e2.WokenAt = stamp(false)
								e2.Ret = stamp(true)
								verifsim.Yield("op")
								ev3 := vmEvent{Client: ci, Kind: "get", Key: op.Key, Call: stamp(false), Ret: -1}
								hist[ci] = append(hist[ci], ev3)
								e3 := &hist[ci][len(hist[ci])-1]
								e3.Out = m.Get(op.Key)
								e3.Val = -1 // marks "read after wake-up"
								e3.Ret = stamp(true)
							}
							continue
						case "getorset":
							v, err := em.GetOrSet(op.Key, func() (int, error) {
								fcalls[op.Key].Add(1)
								e.Called = true
								verifsim.Yield("f")
								if op.Val%5 == 0 {
									return 0, errors.New("f failed")
								}
								return op.Val, nil
							})
							e.Out = v
							e.OutB = err != nil
						}
						e.Ret = stamp(true)
					}
				}})
			}
			s.RunTasks(tasks)
			hung, hungWhy = s.Hung, s.HungWhy
			choices = s.Recorded()
			res.Stats["sched_steps"] = int64(s.Steps)
			res.Stats["choices2plus"] = int64(s.Choices2plus)
		})
	}()
	p.Choices = choices
	res.Params = p
	for _, h := range hist {
		res.History = append(res.History, h...)
	}
	fail := func(cls, detail string) {
		if res.Violation == nil {
			res.Violation = &vmViolation{cls, detail}
		}
	}
	// online / direct invariants
	if hung {
		// which waiter is stuck, and is its key present?
		for _, e := range res.History {
			if e.Kind == "woken" && e.Ret < 0 {
				fail("lost-wakeup", fmt.Sprintf("client %d is still waiting for key %d although every waited key was set by the closer (%s)", e.Client, e.Key, hungWhy))
			}
		}
		fail("hang", "clients did not finish: "+hungWhy)
	}
	firstInsertInvoke := map[int]int64{}
	for _, e := range res.History {
		if e.Kind == "add" || e.Kind == "set" || e.Kind == "addorget" {
			if v, ok := firstInsertInvoke[e.Key]; !ok || e.Call < v {
				firstInsertInvoke[e.Key] = e.Call
			}
		}
	}
	written := map[int]map[int]bool{}
	for _, e := range res.History {
		if e.Kind == "add" || e.Kind == "set" || e.Kind == "addorget" {
			if written[e.Key] == nil {
				written[e.Key] = map[int]bool{}
			}
			written[e.Key][e.Val] = true
		}
	}
	for _, e := range res.History {
		if e.Kind == "woken" && e.Ret >= 0 {
			fi, ok := firstInsertInvoke[e.Key]
			if !ok || fi > e.WokenAt {
				fail("early-or-foreign-wakeup", fmt.Sprintf("client %d waiting for key %d was released at stamp %d before any insert of that key had been invoked (first insert invoked at %d, ok=%v)", e.Client, e.Key, e.WokenAt, fi, ok))
			}
		}
		if e.Kind == "get" && e.Val == -1 && e.Ret >= 0 {
			if !written[e.Key][e.Out] {
				fail("wake-without-value", fmt.Sprintf("client %d was released for key %d but a following Get returned %d, not a value written for that key", e.Client, e.Key, e.Out))
			}
		}
	}
	if p.ErrMap {
		results := map[int]map[string]bool{}
		for _, e := range res.History {
			if e.Kind == "getorset" && e.Ret >= 0 {
				if results[e.Key] == nil {
					results[e.Key] = map[string]bool{}
				}
				results[e.Key][fmt.Sprintf("%d/%v", e.Out, e.OutB)] = true
			}
		}
		for k, rs := range results {
			if n := fcalls[k].Load(); n != 1 {
				fail("getorset-f-calls", fmt.Sprintf("ErrMap.GetOrSet ran its function %d times for key %d", n, k))
			}
			if len(rs) != 1 {
				fail("getorset-results-differ", fmt.Sprintf("callers of ErrMap.GetOrSet for key %d received different results: %v", k, rs))
			}
		}
	}
	// overlap measure: pairs of operations on one key whose intervals intersect
	for i := range res.History {
		for j := i + 1; j < len(res.History); j++ {
			a, b := res.History[i], res.History[j]
			if a.Client != b.Client && a.Key == b.Key && a.Ret >= 0 && b.Ret >= 0 && a.Call <= b.Ret && b.Call <= a.Ret {
				res.Overlaps++
			}
		}
	}
	return res
}

func TestVerifCmap(t *testing.T) {
	path := os.Getenv("VERIF_RUN")
	if path == "" {
		t.Skip("VERIF_RUN not set")
	}
	data, err := os.ReadFile(path)
	if err != nil {
		panic(err)
	}
	var run vmRun
	if err := json.Unmarshal(data, &run); err != nil {
		panic(err)
	}
	out, err := os.OpenFile(run.Out, os.O_WRONLY|os.O_CREATE|os.O_TRUNC, 0o644)
	if err != nil {
		panic(err)
	}
	enc := json.NewEncoder(out)
	for i := run.Start; i < run.Start+run.Count; i++ {
		seed := verifsim.SubSeed(run.Seed, fmt.Sprintf("c15/%d", i))
		var rp *vmParams
		if len(run.Replay) > 0 {
			rp = &vmParams{}
			if err := json.Unmarshal(run.Replay, rp); err != nil {
				panic(err)
			}
		}
		res := scenarioVM(t, seed, rp)
		res.Index = i
		if err := enc.Encode(res); err != nil {
			panic(err)
		}
	}
	out.Close()
	os.Exit(0)
}
