//go:build verif

package cache
