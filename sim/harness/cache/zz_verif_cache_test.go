//go:build verif

package cache

// In-package simulation harness for the directory cache (C12, C14). One OS process runs many
// scenarios, each in its own testing/synctest bubble under the seeded scheduler, on a scratch
// tree under $root (tmpfs). Results are written as JSON lines to $out.

import (
	"crypto/sha256"
	"encoding/hex"
	"encoding/json"
	"fmt"
	"os"
	"path/filepath"
	"sort"
	"strings"
	"testing"
	"testing/synctest"
	"time"

	"github.com/thought-machine/please/src/core"
	"github.com/thought-machine/please/src/verifsim"
)

type vcRun struct {
	Mode   string          `json:"mode"`
	Seed   uint64          `json:"seed"`
	Start  int             `json:"start"`
	Count  int             `json:"count"`
	Root   string          `json:"root"`
	Out    string          `json:"out"`
	Tier   string          `json:"tier"`
	Replay json.RawMessage `json:"replay"`
}

type vcResult struct {
	Index      int                    `json:"index"`
	Mode       string                 `json:"mode"`
	Seed       uint64                 `json:"seed"`
	Params     map[string]interface{} `json:"params"`
	Evals      int                    `json:"evals"`
	Nontrivial int                    `json:"nontrivial"`
	Sigs       []string               `json:"sigs"`
	Violation  *vcViolation           `json:"violation,omitempty"`
	Known      []*vcViolation         `json:"known,omitempty"`
	Stats      map[string]int64       `json:"stats"`
	Sample     interface{}            `json:"sample,omitempty"`
}

type vcViolation struct {
	Class   string                 `json:"class"`
	Detail  string                 `json:"detail"`
	Replay  map[string]interface{} `json:"replay"`
	Finding string                 `json:"finding,omitempty"` // narrow identity of a known defect, if the failing history matches one
}

// ---- output trees ---------------------------------------------------------------------------

// A vcEntry is one entry of a generated output tree, path relative to the target's out dir.
type vcEntry struct {
	Path    string `json:"p"`
	Kind    string `json:"k"` // F, D, L
	Content string `json:"c,omitempty"`
	Exec    bool   `json:"x,omitempty"`
	Link    string `json:"l,omitempty"`
}

type vcTree struct {
	Outs    []string  `json:"outs"` // declared outputs (top-level names)
	Entries []vcEntry `json:"entries"`
}

var vcNames = []string{"a", "b.txt", "c d", "e=f", "g.tar.gz", "h", "lib.so", "z_", "sub/n.bin", "sub/deep/m"}

func genTree(r *verifsim.Rand, tag string) vcTree {
	var t vcTree
	nouts := 1 + r.Intn(3)
	used := map[string]bool{}
	for i := 0; i < nouts; i++ {
		name := vcNames[r.Intn(len(vcNames))]
		if used[name] {
			continue
		}
		used[name] = true
		t.Outs = append(t.Outs, name)
		if r.Intn(10) < 5 {
			// directory output
			t.Entries = append(t.Entries, vcEntry{Path: name, Kind: "D"})
			n := 1 + r.Intn(5)
			var files []string
			for j := 0; j < n; j++ {
				sub := []string{"", "", "s/", "s/t/"}[r.Intn(4)]
				if sub != "" {
					parts := strings.Split(strings.TrimSuffix(sub, "/"), "/")
					cur := name
					for _, p := range parts {
						cur += "/" + p
						t.Entries = append(t.Entries, vcEntry{Path: cur, Kind: "D"})
					}
				}
				p := fmt.Sprintf("%s/%sf%d", name, sub, j)
				switch k := r.Intn(10); {
				case k < 7:
					t.Entries = append(t.Entries, vcEntry{Path: p, Kind: "F", Content: fmt.Sprintf("%s %s %d %s", tag, p, r.Intn(1000), strings.Repeat("x", r.Intn(3000))), Exec: r.Intn(5) == 0})
					files = append(files, p)
				case k < 8 && len(files) > 0:
					// relative symlink to an earlier file in the same output
					rel, _ := filepath.Rel(filepath.Dir(p), files[r.Intn(len(files))])
					t.Entries = append(t.Entries, vcEntry{Path: p, Kind: "L", Link: rel})
				default:
					t.Entries = append(t.Entries, vcEntry{Path: p + "_emptydir", Kind: "D"})
				}
			}
		} else {
			t.Entries = append(t.Entries, vcEntry{Path: name, Kind: "F", Content: fmt.Sprintf("%s %s %d %s", tag, name, r.Intn(1000), strings.Repeat("y", r.Intn(5000))), Exec: r.Intn(5) == 0})
		}
	}
	// dedupe directory entries
	seen := map[string]bool{}
	var es []vcEntry
	for _, e := range t.Entries {
		if seen[e.Path] {
			continue
		}
		seen[e.Path] = true
		es = append(es, e)
	}
	t.Entries = es
	sort.Strings(t.Outs)
	return t
}

func writeTree(dir string, t vcTree) {
	must(os.MkdirAll(dir, 0o775))
	for _, e := range t.Entries {
		p := filepath.Join(dir, e.Path)
		switch e.Kind {
		case "D":
			must(os.MkdirAll(p, 0o775))
		case "F":
			must(os.MkdirAll(filepath.Dir(p), 0o775))
			mode := os.FileMode(0o664)
			if e.Exec {
				mode = 0o775
			}
			must(os.WriteFile(p, []byte(e.Content), mode))
		case "L":
			must(os.MkdirAll(filepath.Dir(p), 0o775))
			must(os.Symlink(e.Link, p))
		}
	}
}

func must(err error) {
	if err != nil {
		panic(err)
	}
}

// snapTree renders the tree under dir restricted to the declared outs, canonical and comparable.
func snapTree(dir string, outs []string) []string {
	var res []string
	for _, o := range outs {
		root := filepath.Join(dir, o)
		filepath.Walk(root, func(p string, info os.FileInfo, err error) error {
			if err != nil {
				return nil
			}
			rel, _ := filepath.Rel(dir, p)
			switch {
			case info.Mode()&os.ModeSymlink != 0:
				l, _ := os.Readlink(p)
				res = append(res, "L "+rel+" -> "+l)
			case info.IsDir():
				res = append(res, "D "+rel)
			default:
				b, _ := os.ReadFile(p)
				h := sha256.Sum256(b)
				x := ""
				if info.Mode()&0o111 != 0 {
					x = " x"
				}
				res = append(res, fmt.Sprintf("F %s %d %s%s", rel, len(b), hex.EncodeToString(h[:6]), x))
			}
			return nil
		})
	}
	sort.Strings(res)
	return res
}

func modelTree(t vcTree) []string {
	var res []string
	for _, e := range t.Entries {
		switch e.Kind {
		case "D":
			res = append(res, "D "+e.Path)
		case "L":
			res = append(res, "L "+e.Path+" -> "+e.Link)
		default:
			h := sha256.Sum256([]byte(e.Content))
			x := ""
			if e.Exec {
				x = " x"
			}
			res = append(res, fmt.Sprintf("F %s %d %s%s", e.Path, len(e.Content), hex.EncodeToString(h[:6]), x))
		}
	}
	sort.Strings(res)
	return res
}

func sameSnap(a, b []string) bool {
	if len(a) != len(b) {
		return false
	}
	for i := range a {
		if a[i] != b[i] {
			return false
		}
	}
	return true
}

func snapSig(s []string) string {
	h := sha256.Sum256([]byte(strings.Join(s, "\n")))
	return hex.EncodeToString(h[:8])
}

// ---- scenario plumbing --------------------------------------------------------------------------

type vcEnv struct {
	root     string // scenario root = core.RepoRoot = cwd
	cacheDir string
	compress bool
}

func newEnv(root string, compress bool) *vcEnv {
	os.RemoveAll(root)
	must(os.MkdirAll(root, 0o775))
	must(os.Chdir(root))
	core.RepoRoot = root
	verifsim.FSRoot = root
	return &vcEnv{root: root, cacheDir: filepath.Join(root, "cache"), compress: compress}
}

// set per scenario by TestVerifCache
var (
	vcPkgName  = "pkg"
	vcDirSlash = false
)

func (e *vcEnv) newCache() *dirCache {
	config := core.DefaultConfiguration()
	config.Cache.Dir = e.cacheDir
	if vcDirSlash {
		config.Cache.Dir = e.cacheDir + "/"
	}
	config.Cache.DirCompress = e.compress
	config.Cache.DirClean = false
	return newDirCache(config)
}

// target returns the build target as seen by simulated process proc: same package and name (hence
// the same cache entry) but its own output directory, as two checkouts sharing one cache have.
func vcTarget(proc string, outs []string) *core.BuildTarget {
	t := core.NewBuildTarget(core.BuildLabel{Subrepo: proc, PackageName: vcPkgName, Name: "tgt"})
	for _, o := range outs {
		t.AddOutput(o)
	}
	return t
}

func (e *vcEnv) outDir(t *core.BuildTarget) string { return filepath.Join(e.root, t.OutDir()) }

func wipe(dir string) {
	os.RemoveAll(dir)
	must(os.MkdirAll(dir, 0o775))
}

// bubble runs fn as the root of a fresh synctest bubble with a fresh scheduler.
func bubble(t *testing.T, seed uint64, policy string, choices []int, fn func(s *verifsim.Scheduler)) (steps int, choicesOut []int) {
	defer func() {
		if r := recover(); r != nil {
			// the end-of-bubble complaint about tasks blocked forever by an injected crash
			if !strings.Contains(fmt.Sprint(r), "deadlock") && !strings.Contains(fmt.Sprint(r), "blocked") {
				panic(r)
			}
		}
	}()
	var tf *os.File
	if d := os.Getenv("VERIF_TRACE_DIR"); d != "" {
		vcTraceN++
		tf, _ = os.Create(filepath.Join(d, fmt.Sprintf("trace%d", vcTraceN)))
		defer tf.Close()
	}
	synctest.Test(t, func(t *testing.T) {
		verifsim.Enable()
		s := verifsim.NewScheduler(verifsim.Config{Seed: seed, Policy: policy, Choices: choices, MaxSteps: 200000, MaxSimTime: time.Hour, Record: true, Trace: tf})
		fn(s)
		steps = s.Steps
		choicesOut = s.Recorded()
	})
	return
}

var vcTraceN int

var vcKey = []byte("12345678901234567890") // 20 bytes like a sha1

// ---- C12 scenario: crash enumeration -----------------------------------------------------------

type c12Params struct {
	FaultKind string `json:"fault_kind"` // "" or "crash": process death; "error": the n-th operation fails with Errno
	Errno     string `json:"errno"`
	Compress bool   `json:"compress"`
	Restore  bool   `json:"restore"`  // a complete entry for the key exists before the crashed Store
	SameTree bool   `json:"sametree"` // the re-stored tree equals the published one
	Tree1    vcTree `json:"tree1"`
	Tree2    vcTree `json:"tree2"`
	CrashAt  int64  `json:"crash_at"` // 0 = enumerate all
	Tear     bool   `json:"tear"`
	Seed     uint64 `json:"seed"`
}

func genC12(seed uint64) c12Params {
	r := verifsim.NewRand(verifsim.SubSeed(seed, "c12"))
	p := c12Params{Seed: seed, Compress: r.Intn(2) == 0, Restore: r.Intn(5) < 3, SameTree: r.Intn(2) == 0, Tear: r.Intn(2) == 0}
	p.Tree1 = genTree(r, "one")
	p.Tree2 = genTree(r, "two")
	p.Tree2.Outs = p.Tree1.Outs // the same key implies the same declared outputs
	if p.SameTree || !sameOuts(p.Tree1, p.Tree2) {
		p.Tree2 = p.Tree1
		p.SameTree = true
	}
	return p
}

func sameOuts(a, b vcTree) bool {
	// tree2 must have an entry for every declared out
	top := map[string]bool{}
	for _, e := range b.Entries {
		top[strings.Split(e.Path, "/")[0]] = true
	}
	for _, o := range a.Outs {
		if !top[o] {
			return false
		}
	}
	return len(top) == len(a.Outs)
}

// runC12Once performs: [clean Store(tree1)] ; Store(tree2) crashed at op n (0 = no crash) ;
// restart ; Retrieve into another checkout. Returns (ops of the crashed store, verdict).
func runC12Once(t *testing.T, root string, p c12Params, n int64) (ops int64, class, detail string, fired bool) {
	ops, class, detail, fired, _ = runC12OnceLog(t, root, p, n)
	return
}

func runC12OnceLog(t *testing.T, root string, p c12Params, n int64) (ops int64, class, detail string, fired bool, oplog []string) {
	env := newEnv(root, p.Compress)
	tA := vcTarget("coA", p.Tree1.Outs)
	tB := vcTarget("coB", p.Tree1.Outs)
	var hit, hit2 bool
	var got, got2 []string
	bubble(t, p.Seed, "first", nil, func(s *verifsim.Scheduler) {
		verifsim.ResetFS()
		verifsim.FSYield = true
		if p.Restore {
			writeTree(env.outDir(tA), p.Tree1)
			c := env.newCache()
			s.RunTasks([]verifsim.TaskSpec{{ID: "pre", Proc: "pre", Fn: func() { c.Store(tA, vcKey, p.Tree1.Outs) }}})
			wipe(env.outDir(tA))
		}
		writeTree(env.outDir(tA), p.Tree2)
		c := env.newCache() // creating the cache root is not part of Store
		verifsim.ResetFS()
		verifsim.KeepOpLog = true
		if n > 0 {
			arg := "notear"
			if p.Tear {
				arg = ""
			}
			if p.FaultKind == "error" {
				verifsim.SetFaultPlan([]verifsim.Fault{{Kind: "error", At: n, Arg: p.Errno}}, p.Seed)
			} else {
				verifsim.SetFaultPlan([]verifsim.Fault{{Kind: "crash", At: n, Arg: arg}}, p.Seed)
			}
		}
		fin := s.RunTasks([]verifsim.TaskSpec{{ID: "A", Proc: "A", Fn: func() { c.Store(tA, vcKey, p.Tree2.Outs) }}})
		ops = verifsim.FSOps()
		oplog = verifsim.OpLog()
		verifsim.KeepOpLog = false
		fired = !fin["A"]
		if p.FaultKind == "error" {
			fired = n > 0 && ops >= n
		}
		verifsim.ResetFS()
		// "restart": a fresh process with a fresh cache object retrieves into an empty out dir
		c2 := env.newCache()
		wipe(env.outDir(tB))
		s.RunTasks([]verifsim.TaskSpec{{ID: "B", Proc: "B", Fn: func() { hit = c2.Retrieve(tB, vcKey, p.Tree1.Outs) }}})
		got = snapTree(env.outDir(tB), p.Tree1.Outs)
		if n > 0 {
			// the build is repeated after the crash: a third process stores the key again, completely,
			// and a fourth retrieves it. Whatever the crash left behind must not leak into that entry.
			tC := vcTarget("coC", p.Tree1.Outs)
			writeTree(env.outDir(tC), p.Tree2)
			c3 := env.newCache()
			s.RunTasks([]verifsim.TaskSpec{{ID: "C", Proc: "C", Fn: func() { c3.Store(tC, vcKey, p.Tree2.Outs) }}})
			tD := vcTarget("coD", p.Tree1.Outs)
			wipe(env.outDir(tD))
			c4 := env.newCache()
			s.RunTasks([]verifsim.TaskSpec{{ID: "D", Proc: "D", Fn: func() { hit2 = c4.Retrieve(tD, vcKey, p.Tree1.Outs) }}})
			got2 = snapTree(env.outDir(tD), p.Tree1.Outs)
		}
	})
	m1, m2 := modelTree(p.Tree1), modelTree(p.Tree2)
	if n > 0 && (!hit2 || !sameSnap(got2, m2)) {
		return ops, "bad-restore-after-crashed-store", fmt.Sprintf("after a Store crashed before op %d, a complete second Store of the key followed by Retrieve gave hit=%v %v, stored was %v (compress=%v restore=%v)", n, hit2, got2, m2, p.Compress, p.Restore), fired, oplog
	}
	if !hit {
		if n == 0 {
			var ls []string
			filepath.Walk(env.root, func(pp string, info os.FileInfo, err error) error {
				if err == nil {
					ls = append(ls, fmt.Sprintf("%s(%d)", strings.TrimPrefix(pp, env.root), info.Size()))
				}
				return nil
			})
			return ops, "miss-after-store", fmt.Sprintf("Retrieve after a completed Store missed (compress=%v ops=%d) files: %v", p.Compress, ops, ls), fired, oplog
		}
		return ops, "", "", fired, oplog
	}
	if sameSnap(got, m2) || (p.Restore && sameSnap(got, m1)) {
		return ops, "", "", fired, oplog
	}
	cls := "partial-hit-after-crash"
	if n == 0 {
		cls = "wrong-tree-after-store"
	}
	what := "crash before"
	if p.FaultKind == "error" {
		what = p.Errno + " injected at"
		if n > 0 {
			cls = "partial-hit-after-io-error"
		}
	}
	return ops, cls, fmt.Sprintf("Retrieve reported a hit but restored %v; complete trees are %v (new) / %v (old, restore=%v); %s op %d of Store, compress=%v", got, m2, m1, p.Restore, what, n, p.Compress), fired, oplog
}

// c12Finding names the known defect a failing crash history matches, if any: the crash landed
// inside Store's initial recursive delete of the already published entry (every operation up to
// and including the crash point is an unlink/rmdir below the published entry's path).
func c12Finding(p c12Params, cls string, n int64, oplog []string) string {
	if (cls != "partial-hit-after-crash" && cls != "partial-hit-after-io-error") || !p.Restore || p.Compress || n < 1 || int(n) > len(oplog) {
		return ""
	}
	entry := filepath.Join("cache", vcPkgName, "tgt") + "/"
	for _, l := range oplog[:n] {
		f := strings.Fields(l)
		if len(f) < 2 || (f[0] != "unlink" && f[0] != "rmdir") || !strings.HasPrefix(filepath.Clean(f[1])+"/", entry) || strings.Contains(f[1], "==") {
			return ""
		}
	}
	return "C12-restore-delete-not-atomic"
}

func scenarioC12(t *testing.T, root string, seed uint64, replay *c12Params, tier string, errMode bool) vcResult {
	p := genC12(seed)
	if errMode {
		r := verifsim.NewRand(verifsim.SubSeed(seed, "c12e"))
		p.FaultKind = "error"
		p.Errno = []string{"EIO", "ENOSPC", "EACCES", "EXDEV"}[r.Intn(4)]
	}
	if replay != nil {
		p = *replay
	}
	res := vcResult{Mode: "c12", Seed: seed, Stats: map[string]int64{}, Params: map[string]interface{}{"compress": p.Compress, "restore": p.Restore, "sametree": p.SameTree, "tear": p.Tear, "outs": p.Tree1.Outs, "entries": len(p.Tree2.Entries), "fault": p.FaultKind + p.Errno}}
	if p.FaultKind == "error" {
		res.Mode = "c12e"
	}
	points := []int64{}
	if p.CrashAt > 0 {
		points = append(points, p.CrashAt)
	} else {
		ops, cls, detail, _ := runC12Once(t, root, p, 0)
		res.Evals++
		if cls != "" {
			q := p
			res.Violation = &vcViolation{Class: cls, Detail: detail, Replay: map[string]interface{}{"params": q}}
			return res
		}
		for n := int64(1); n <= ops; n++ {
			points = append(points, n)
		}
		res.Stats["store_ops"] = ops
	}
	for _, n := range points {
		_, cls, detail, fired, oplog := runC12OnceLog(t, root, p, n)
		res.Evals++
		if fired {
			if p.FaultKind == "error" {
				res.Stats["io_errors_injected"]++
			} else {
				res.Stats["crashes_fired"]++
			}
			if len(p.Tree2.Entries) >= 2 {
				res.Nontrivial++
				res.Sigs = append(res.Sigs, fmt.Sprintf("c12%s/%d/%d", p.FaultKind, seed, n))
			}
		}
		if cls != "" {
			q := p
			q.CrashAt = n
			v := &vcViolation{Class: cls, Detail: detail, Replay: map[string]interface{}{"params": q}, Finding: c12Finding(p, cls, n, oplog)}
			if v.Finding != "" && p.CrashAt == 0 {
				// a known defect: note it and keep enumerating, other crash points may fail differently
				res.Known = append(res.Known, v)
				continue
			}
			res.Violation = v
			return res
		}
	}
	for k, v := range verifsim.FaultsFired() {
		res.Stats["fault_"+k] = v
	}
	return res
}

// ---- C12 scenario: fault-free model ------------------------------------------------------------

type c12mParams struct {
	Seed     uint64 `json:"seed"`
	Compress bool   `json:"compress"`
}

func scenarioC12Model(t *testing.T, root string, seed uint64, tier string) vcResult {
	r := verifsim.NewRand(verifsim.SubSeed(seed, "c12m"))
	compress := r.Intn(2) == 0
	res := vcResult{Mode: "c12m", Seed: seed, Stats: map[string]int64{}, Params: map[string]interface{}{"compress": compress}}
	env := newEnv(root, compress)
	keys := [][]byte{[]byte("12345678901234567890"), []byte("abcdefghijabcdefghij"), []byte("ABCDEFGHIJ0123456789")}
	model := map[int]*vcTree{}
	nops := 4 + r.Intn(8)
	var ops []string
	var viol *vcViolation
	bubble(t, seed, "first", nil, func(s *verifsim.Scheduler) {
		verifsim.ResetFS()
		c := env.newCache()
		for i := 0; i < nops && viol == nil; i++ {
			k := r.Intn(len(keys))
			switch op := r.Intn(10); {
			case op < 4:
				tr := genTree(r, fmt.Sprintf("m%d", i))
				tg := vcTarget("co", tr.Outs)
				wipe(env.outDir(tg))
				writeTree(env.outDir(tg), tr)
				s.RunTasks([]verifsim.TaskSpec{{ID: "s", Proc: "P", Fn: func() { c.Store(tg, keys[k], tr.Outs) }}})
				model[k] = &tr
				ops = append(ops, fmt.Sprintf("store k%d %v", k, tr.Outs))
			case op < 9:
				var outs []string
				if model[k] != nil {
					outs = model[k].Outs
				} else {
					outs = []string{"a"}
				}
				tg := vcTarget("co2", outs)
				if model[k] != nil && r.Intn(2) == 0 {
					// the out dir is not empty: it holds another version of the same outputs (an edit,
					// build, revert, build history); a hit must replace it exactly
					other := variantTree(*model[k], r)
					wipe(env.outDir(tg))
					writeTree(env.outDir(tg), other)
					res.Stats["retrieves_over_dirty_outdir"]++
				} else {
					wipe(env.outDir(tg))
				}
				var hit bool
				s.RunTasks([]verifsim.TaskSpec{{ID: "r", Proc: "P", Fn: func() { hit = c.Retrieve(tg, keys[k], outs) }}})
				ops = append(ops, fmt.Sprintf("retrieve k%d -> %v", k, hit))
				res.Evals++
				if model[k] == nil {
					if hit {
						viol = &vcViolation{Class: "hit-never-stored", Detail: fmt.Sprintf("Retrieve of a key that was never stored reported a hit; ops=%v", ops)}
					}
				} else {
					got := snapTree(env.outDir(tg), outs)
					want := modelTree(*model[k])
					if !hit {
						viol = &vcViolation{Class: "miss-after-store", Detail: fmt.Sprintf("Retrieve after a completed Store missed; ops=%v compress=%v", ops, compress)}
					} else if !sameSnap(got, want) {
						viol = &vcViolation{Class: "wrong-tree-after-store", Detail: fmt.Sprintf("Retrieve restored %v, stored was %v; ops=%v compress=%v", got, want, ops, compress)}
					} else {
						res.Nontrivial++
					}
				}
			default:
				c = env.newCache() // restart
				ops = append(ops, "restart")
			}
		}
	})
	res.Sigs = append(res.Sigs, fmt.Sprintf("c12m/%d", seed))
	if viol != nil {
		viol.Replay = map[string]interface{}{"seed": seed}
		res.Violation = viol
	}
	res.Sample = ops
	return res
}

// ---- C12 scenario: concurrent processes on one key -------------------------------------------------

type c12cParams struct {
	Seed     uint64   `json:"seed"`
	Compress bool     `json:"compress"`
	Procs    []string `json:"procs"` // "S" store, "R" retrieve, per process a sequence like "SR"
	Pre      bool     `json:"pre"`   // an entry exists beforehand
	Trees    []vcTree `json:"trees"`
	Policy   string   `json:"policy"`
	Choices  []int    `json:"choices"`
}

func genC12c(seed uint64) c12cParams {
	r := verifsim.NewRand(verifsim.SubSeed(seed, "c12c"))
	p := c12cParams{Seed: seed, Compress: r.Intn(2) == 0, Pre: r.Intn(2) == 0}
	np := 2 + r.Intn(2)
	base := genTree(r, "t0")
	p.Trees = append(p.Trees, base)
	for i := 0; i < np; i++ {
		seq := ""
		for j := 0; j < 1+r.Intn(2); j++ {
			seq += []string{"S", "R", "R"}[r.Intn(3)]
		}
		p.Procs = append(p.Procs, seq)
		// every process that stores has its own content for the same declared outs
		tr := genTree(verifsim.NewRand(verifsim.SubSeed(seed, "c12c-base")), fmt.Sprintf("t%d", i+1))
		tr = retag(base, fmt.Sprintf("t%d", i+1))
		p.Trees = append(p.Trees, tr)
	}
	hasS, hasR := p.Pre, false
	for _, s := range p.Procs {
		hasS = hasS || strings.Contains(s, "S")
		hasR = hasR || strings.Contains(s, "R")
	}
	if !hasS {
		p.Procs[0] = "S" + p.Procs[0]
	}
	if !hasR {
		p.Procs[len(p.Procs)-1] += "R"
	}
	return p
}

// variantTree returns another version of a tree: longer contents, and extra files in directories.
func variantTree(t vcTree, r *verifsim.Rand) vcTree {
	n := vcTree{Outs: t.Outs}
	for _, e := range t.Entries {
		if e.Kind == "F" {
			e.Content = e.Content + strings.Repeat(" longer", 1+r.Intn(200))
		}
		n.Entries = append(n.Entries, e)
		if e.Kind == "D" && r.Intn(2) == 0 {
			n.Entries = append(n.Entries, vcEntry{Path: e.Path + "/only_in_other_version", Kind: "F", Content: "stale"})
		}
	}
	return n
}

// retag returns the same shape with different file contents.
func retag(t vcTree, tag string) vcTree {
	n := vcTree{Outs: t.Outs}
	for _, e := range t.Entries {
		if e.Kind == "F" {
			e.Content = tag + " " + e.Content
		}
		n.Entries = append(n.Entries, e)
	}
	return n
}

func scenarioC12c(t *testing.T, root string, seed uint64, replay *c12cParams, tier string) vcResult {
	p := genC12c(seed)
	if replay != nil {
		p = *replay
	}
	res := vcResult{Mode: "c12c", Seed: seed, Stats: map[string]int64{}, Params: map[string]interface{}{"compress": p.Compress, "procs": p.Procs, "pre": p.Pre}}
	env := newEnv(root, p.Compress)
	outs := p.Trees[0].Outs
	type obs struct {
		proc string
		hit  bool
		snap []string
	}
	var observations []obs
	var finalHit bool
	var finalSnap []string
	_, choices := bubble(t, seed, p.Policy, p.Choices, func(s *verifsim.Scheduler) {
		verifsim.ResetFS()
		if p.Pre {
			tg := vcTarget("pre", outs)
			writeTree(env.outDir(tg), p.Trees[0])
			c := env.newCache()
			s.RunTasks([]verifsim.TaskSpec{{ID: "pre", Proc: "pre", Fn: func() { c.Store(tg, vcKey, outs) }}})
		}
		var tasks []verifsim.TaskSpec
		for i, seq := range p.Procs {
			i, seq := i, seq
			proc := fmt.Sprintf("P%d", i+1)
			tg := vcTarget(proc, outs)
			rt := vcTarget(proc+"r", outs)
			c := env.newCache()
			writeTree(env.outDir(tg), p.Trees[i+1])
			tasks = append(tasks, verifsim.TaskSpec{ID: proc, Proc: proc, Fn: func() {
				for _, op := range seq {
					if op == 'S' {
						c.Store(tg, vcKey, outs)
					} else {
						wipe(env.outDir(rt))
						hit := c.Retrieve(rt, vcKey, outs)
						observations = append(observations, obs{proc, hit, snapTree(env.outDir(rt), outs)})
					}
				}
			}})
		}
		s.RunTasks(tasks)
		res.Stats["sched_steps"] += int64(s.Steps)
		res.Stats["choices2plus"] += int64(s.Choices2plus)
		// quiescent final retrieve by a fresh process
		c := env.newCache()
		ft := vcTarget("final", outs)
		wipe(env.outDir(ft))
		s.RunTasks([]verifsim.TaskSpec{{ID: "F", Proc: "F", Fn: func() { finalHit = c.Retrieve(ft, vcKey, outs) }}})
		finalSnap = snapTree(env.outDir(ft), outs)
	})
	res.Evals = 1
	var complete [][]string
	for _, tr := range p.Trees {
		complete = append(complete, modelTree(tr))
	}
	isComplete := func(s []string) bool {
		for _, c := range complete {
			if sameSnap(s, c) {
				return true
			}
		}
		return false
	}
	mk := func(cls, detail string) {
		q := p
		q.Choices = choices
		// known defect: more than one Store of the key is involved (stores of different processes share
		// the temporary directory, and a Store deletes the published entry in place)
		stores := 0
		if p.Pre {
			stores++
		}
		for _, sq := range p.Procs {
			stores += strings.Count(sq, "S")
		}
		finding := ""
		if stores >= 2 {
			finding = "C12-concurrent-stores-of-one-key"
		}
		res.Violation = &vcViolation{Class: cls, Detail: detail, Replay: map[string]interface{}{"params": q}, Finding: finding}
	}
	for _, o := range observations {
		if o.hit && !isComplete(o.snap) {
			mk("partial-hit-concurrent", fmt.Sprintf("process %s: Retrieve reported a hit but restored %v, which is not the complete tree of any Store of this key (procs=%v pre=%v compress=%v)", o.proc, o.snap, p.Procs, p.Pre, p.Compress))
			return res
		}
	}
	if finalHit && !isComplete(finalSnap) {
		mk("partial-hit-after-concurrent", fmt.Sprintf("after all processes finished, Retrieve reported a hit but restored %v (procs=%v pre=%v compress=%v)", finalSnap, p.Procs, p.Pre, p.Compress))
		return res
	}
	if res.Stats["choices2plus"] >= 5 {
		res.Nontrivial = 1
		res.Sigs = append(res.Sigs, fmt.Sprintf("c12c/%d/%d", seed, res.Stats["sched_steps"]))
	}
	return res
}

// ---- driver -------------------------------------------------------------------------------------

func TestVerifCache(t *testing.T) {
	path := os.Getenv("VERIF_RUN")
	if path == "" {
		t.Skip("VERIF_RUN not set")
	}
	data, err := os.ReadFile(path)
	must(err)
	var run vcRun
	must(json.Unmarshal(data, &run))
	out, err := os.OpenFile(run.Out, os.O_WRONLY|os.O_CREATE|os.O_TRUNC, 0o644)
	must(err)
	enc := json.NewEncoder(out)
	for i := run.Start; i < run.Start+run.Count; i++ {
		seed := verifsim.SubSeed(run.Seed, fmt.Sprintf("%s/%d", run.Mode, i))
		root := filepath.Join(run.Root, fmt.Sprintf("s%d", i))
		// layout of the cache: which package the target lives in and how the cache directory is spelled
		// (0-2: //pkg, 3: the root package, 4: a nested package, 5: //pkg with a trailing slash on the directory)
		layout := int(verifsim.SubSeed(seed, "layout") % 6)
		if len(run.Replay) > 0 {
			var lay struct {
				Layout *int `json:"layout"`
			}
			json.Unmarshal(run.Replay, &lay)
			layout = 0
			if lay.Layout != nil {
				layout = *lay.Layout
			}
		}
		vcPkgName, vcDirSlash = "pkg", false
		switch layout {
		case 3:
			vcPkgName = ""
		case 4:
			vcPkgName = "a/b"
		case 5:
			vcDirSlash = true
		}
		var res vcResult
		switch run.Mode {
		case "c12":
			var rp *c12Params
			if len(run.Replay) > 0 {
				rp = &c12Params{}
				must(json.Unmarshal(run.Replay, rp))
			}
			res = scenarioC12(t, root, seed, rp, run.Tier, false)
		case "c12e":
			var rp *c12Params
			if len(run.Replay) > 0 {
				rp = &c12Params{}
				must(json.Unmarshal(run.Replay, rp))
			}
			res = scenarioC12(t, root, seed, rp, run.Tier, true)
		case "c12m":
			if len(run.Replay) > 0 {
				var rp struct {
					Seed uint64 `json:"seed"`
				}
				must(json.Unmarshal(run.Replay, &rp))
				seed = rp.Seed
			}
			res = scenarioC12Model(t, root, seed, run.Tier)
		case "c12c":
			var rp *c12cParams
			if len(run.Replay) > 0 {
				rp = &c12cParams{}
				must(json.Unmarshal(run.Replay, rp))
			}
			res = scenarioC12c(t, root, seed, rp, run.Tier)
		case "c13":
			var rp *c13Params
			if len(run.Replay) > 0 {
				rp = &c13Params{}
				must(json.Unmarshal(run.Replay, rp))
			}
			res = scenarioC13(t, root, seed, rp)
		case "c14":
			var rp *c14Params
			if len(run.Replay) > 0 {
				rp = &c14Params{}
				must(json.Unmarshal(run.Replay, rp))
			}
			res = scenarioC14(t, root, seed, rp, run.Tier)
		case "c14k":
			var rp *c14Params
			if len(run.Replay) > 0 {
				rp = &c14Params{}
				must(json.Unmarshal(run.Replay, rp))
			}
			res = scenarioC14k(t, root, seed, rp, run.Tier)
		default:
			panic("unknown mode " + run.Mode)
		}
		res.Index = i
		for _, v := range append([]*vcViolation{res.Violation}, res.Known...) {
			if v != nil && v.Replay != nil {
				v.Replay["layout"] = layout
				if pm, ok := v.Replay["params"].(map[string]interface{}); ok {
					pm["layout"] = layout
				}
			}
		}
		if res.Stats == nil {
			res.Stats = map[string]int64{}
		}
		res.Stats[fmt.Sprintf("layout_%d", layout)]++
		must(enc.Encode(res))
		os.Chdir(run.Root)
		os.RemoveAll(root)
	}
	out.Close()
	os.Exit(0)
}
