//go:build verif

package cache

import (
	"encoding/base64"
	"fmt"
	"os"
	"path/filepath"
	"sort"
	"strings"
	"testing"
	"time"

	"github.com/thought-machine/please/src/core"
	"github.com/thought-machine/please/src/verifsim"
)

// C14: the cleaner runs concurrently with Store/Retrieve of the same process on one dirCache.

type c14Entry struct {
	Name    string `json:"name"` // target name (package is "pkg")
	KeyLen  int    `json:"keylen"`
	KeyByte byte   `json:"keybyte"`
	Tree    vcTree `json:"tree"`
	AgeSec  int    `json:"age"`
	Temp    bool   `json:"temp"` // a stray "key=" temporary left by a crashed store
}

type c14Op struct {
	Kind  string `json:"kind"` // S (store new entry), R (retrieve existing entry)
	Entry int    `json:"entry"`
	Phase int    `json:"phase"` // 1 = before clean starts, 2 = concurrently with clean
}

type c14Params struct {
	Seed     uint64     `json:"seed"`
	Compress bool       `json:"compress"`
	Entries  []c14Entry `json:"entries"`
	NewOnes  []c14Entry `json:"new"`
	Ops      []c14Op    `json:"ops"`
	HighMode string     `json:"highmode"` // below | at | above-by-one | half | zero
	LowFrac  int        `json:"lowfrac"`  // low = high * lowfrac / 4
	Policy   string     `json:"policy"`
	Choices  []int      `json:"choices"`
}

func (e c14Entry) key() []byte {
	k := make([]byte, e.KeyLen)
	for i := range k {
		k[i] = e.KeyByte + byte(i)
	}
	return k
}

func genC14(seed uint64) c14Params {
	r := verifsim.NewRand(verifsim.SubSeed(seed, "c14"))
	p := c14Params{Seed: seed, Compress: r.Intn(2) == 0}
	n := r.Intn(9)
	if r.Intn(6) == 0 {
		n = 0
	}
	for i := 0; i < n; i++ {
		e := c14Entry{Name: fmt.Sprintf("t%d", r.Intn(4)), KeyLen: []int{20, 20, 32}[r.Intn(3)], KeyByte: byte(16 * i), AgeSec: []int{0, 10, 590, 600, 610, 1200, 86400}[r.Intn(7)] + r.Intn(5)}
		e.Tree = genTree(r, fmt.Sprintf("e%d", i))
		e.Temp = r.Intn(8) == 0
		p.Entries = append(p.Entries, e)
	}
	nn := r.Intn(3)
	for i := 0; i < nn; i++ {
		e := c14Entry{Name: fmt.Sprintf("n%d", i), KeyLen: []int{20, 32}[r.Intn(2)], KeyByte: byte(200 + i)}
		e.Tree = genTree(r, fmt.Sprintf("n%d", i))
		p.NewOnes = append(p.NewOnes, e)
		p.Ops = append(p.Ops, c14Op{Kind: "S", Entry: i, Phase: 1 + r.Intn(2)})
	}
	for i := range p.Entries {
		if !p.Entries[i].Temp && r.Intn(3) == 0 {
			p.Ops = append(p.Ops, c14Op{Kind: "R", Entry: i, Phase: 1 + r.Intn(2)})
		}
	}
	// shuffle ops
	for i := len(p.Ops) - 1; i > 0; i-- {
		j := r.Intn(i + 1)
		p.Ops[i], p.Ops[j] = p.Ops[j], p.Ops[i]
	}
	p.HighMode = []string{"below", "at", "above-by-one", "half", "zero", "half"}[r.Intn(6)]
	p.LowFrac = r.Intn(5)
	return p
}

func c14Target(name string, outs []string, proc string) *core.BuildTarget {
	t := core.NewBuildTarget(core.BuildLabel{Subrepo: proc, PackageName: vcPkgName, Name: name})
	for _, o := range outs {
		t.AddOutput(o)
	}
	return t
}

func dirSize(path string) uint64 {
	var total uint64
	filepath.Walk(path, func(_ string, info os.FileInfo, err error) error {
		if err == nil {
			total += uint64(info.Size())
		}
		return nil
	})
	return total
}

func scenarioC14(t *testing.T, root string, seed uint64, replay *c14Params, tier string) vcResult {
	p := genC14(seed)
	if replay != nil {
		p = *replay
	}
	res := vcResult{Mode: "c14", Seed: seed, Stats: map[string]int64{}, Params: map[string]interface{}{"compress": p.Compress, "entries": len(p.Entries), "ops": p.Ops, "highmode": p.HighMode, "lowfrac": p.LowFrac}}
	env := newEnv(root, p.Compress)
	var viol *vcViolation
	fail := func(cls, detail string, choices []int) {
		if viol == nil {
			q := p
			q.Choices = choices
			viol = &vcViolation{Class: cls, Detail: detail, Replay: map[string]interface{}{"params": q}}
		}
	}
	type touch struct {
		idx     int
		isNew   bool
		retStep int
	}
	var touches []touch
	var cleanOps []verifsim.OpMeta
	type info struct {
		path      string
		protected bool // op on it completed before clean started
		touched   bool // any op of this process on it (also concurrently)
		stored    *vcTree
		size      uint64
	}
	var infos []*info
	var newInfos []*info
	var cleanRet uint64
	var high, low uint64
	var triggered bool
	var rechoices []int
	_, rechoices = bubble(t, seed, p.Policy, p.Choices, func(s *verifsim.Scheduler) {
		verifsim.ResetFS()
		// populate the cache directory with complete entries through a separate "earlier process"
		pre := env.newCache()
		for i := range p.Entries {
			e := &p.Entries[i]
			tg := c14Target(e.Name, e.Tree.Outs, "seed")
			wipe(env.outDir(tg))
			writeTree(env.outDir(tg), e.Tree)
			s.RunTasks([]verifsim.TaskSpec{{ID: "pre", Proc: "pre", Fn: func() { pre.Store(tg, e.key(), e.Tree.Outs) }}})
			path := pre.getPath(tg, e.key(), "")
			if e.Temp {
				tmp := pre.getFullPath(tg, e.key(), "", "=")
				os.RemoveAll(tmp)
				must(os.Rename(path, tmp))
				path = tmp
			}
			at := time.Now().Add(-time.Duration(e.AgeSec) * time.Second)
			os.Chtimes(path, at, at)
			tr := e.Tree
			in := &info{path: path, stored: &tr}
			if e.Temp {
				in.stored = nil
			}
			infos = append(infos, in)
		}
		// a few things that are not entries
		os.WriteFile(filepath.Join(env.cacheDir, "README"), []byte("not an entry"), 0o644)
		os.MkdirAll(filepath.Join(env.cacheDir, vcPkgName, "t0", "not-a-key"), 0o775)
		os.WriteFile(filepath.Join(env.cacheDir, vcPkgName, "t0", "not-a-key", "f"), []byte("junk"), 0o644)

		c := env.newCache() // the current process
		for i := range p.NewOnes {
			e := &p.NewOnes[i]
			tg := c14Target(e.Name, e.Tree.Outs, "cur-"+e.Name)
			wipe(env.outDir(tg))
			writeTree(env.outDir(tg), e.Tree)
			tr := e.Tree
			newInfos = append(newInfos, &info{path: c.getPath(tg, e.key(), ""), stored: &tr})
		}
		doOp := func(op c14Op, phase int) {
			if op.Kind == "S" {
				e := &p.NewOnes[op.Entry]
				tg := c14Target(e.Name, e.Tree.Outs, "cur-"+e.Name)
				c.Store(tg, e.key(), e.Tree.Outs)
				newInfos[op.Entry].touched = true
				if phase == 2 {
					touches = append(touches, touch{op.Entry, true, verifsim.Step()})
				}
				if phase == 1 {
					newInfos[op.Entry].protected = true
				}
			} else {
				e := &p.Entries[op.Entry]
				tg := c14Target(e.Name, e.Tree.Outs, fmt.Sprintf("r%d", op.Entry))
				wipe(env.outDir(tg))
				hit := c.Retrieve(tg, e.key(), e.Tree.Outs)
				if hit {
					infos[op.Entry].touched = true
					if phase == 2 {
						touches = append(touches, touch{op.Entry, false, verifsim.Step()})
					}
					got := snapTree(env.outDir(tg), e.Tree.Outs)
					if !sameSnap(got, modelTree(e.Tree)) {
						fail("partial-retrieve-during-clean", fmt.Sprintf("Retrieve of %s returned a hit with %v, stored was %v", infos[op.Entry].path, got, modelTree(e.Tree)), nil)
					}
					if phase == 1 {
						infos[op.Entry].protected = true
					}
				} else if phase == 1 {
					fail("miss-before-clean", fmt.Sprintf("Retrieve of the complete entry %s missed before cleaning started", infos[op.Entry].path), nil)
				}
			}
		}
		var ph1, ph2 []c14Op
		for _, op := range p.Ops {
			if op.Phase == 1 {
				ph1 = append(ph1, op)
			} else {
				ph2 = append(ph2, op)
			}
		}
		if len(ph1) > 0 {
			s.RunTasks([]verifsim.TaskSpec{{ID: "ph1", Proc: "cur", Fn: func() {
				for _, op := range ph1 {
					doOp(op, 1)
				}
			}}})
		}
		// sizes as the cleaner measures them, before it runs
		// Only entries this process never touches (in either phase) certainly count with their full
		// size in the cleaner's total: a Retrieve marks its entry with size 0 whenever it runs.
		willTouch := map[int]bool{}
		for _, op := range p.Ops {
			if op.Kind == "R" {
				willTouch[op.Entry] = true
			}
		}
		var unprot uint64
		for i, in := range infos {
			in.size = dirSize(in.path)
			if !in.protected && !willTouch[i] {
				unprot += in.size
			}
		}
		switch p.HighMode {
		case "below":
			high = unprot + 1 + 100000
		case "at":
			high = unprot
		case "above-by-one":
			high = unprot + 1
		case "half":
			high = unprot / 2
		default:
			high = 0
		}
		low = high * uint64(p.LowFrac) / 4
		triggered = unprot >= high
		tasks := []verifsim.TaskSpec{{ID: "clean", Proc: "cur", Fn: func() { cleanRet = c.clean(high, low) }}}
		if len(ph2) > 0 {
			tasks = append(tasks, verifsim.TaskSpec{ID: "ph2", Proc: "cur", Fn: func() {
				for _, op := range ph2 {
					doOp(op, 2)
				}
			}})
		}
		verifsim.KeepOpLog = true
		s.RunTasks(tasks)
		verifsim.KeepOpLog = false
		for _, m := range verifsim.OpLogMeta() {
			if m.Task == "clean" {
				cleanOps = append(cleanOps, m)
			}
		}
		res.Stats["sched_steps"] += int64(s.Steps)
		res.Stats["choices2plus"] += int64(s.Choices2plus)
	})
	_ = cleanRet
	res.Evals = 1
	if viol != nil {
		q := viol.Replay["params"].(c14Params)
		q.Choices = rechoices
		viol.Replay["params"] = q
		res.Violation = viol
		return res
	}
	// (1) protected entries survive, complete
	all := append(append([]*info{}, infos...), newInfos...)
	var remainUnprot uint64
	nUnprot := 0
	removed := 0
	for _, in := range all {
		_, err := os.Lstat(in.path)
		exists := err == nil
		if in.protected && !exists {
			fail("removed-protected-entry", fmt.Sprintf("entry %s was stored/retrieved by this process before cleaning started, but the cleaner removed it (high=%d low=%d)", in.path, high, low), rechoices)
		}
		if !exists {
			removed++
		}
		if exists && !in.protected && !in.touched {
			remainUnprot += dirSize(in.path)
			nUnprot++
		}
	}
	// (1b) an entry whose Store / successful Retrieve by this process had RETURNED while the cleaner was
	// still busy with other entries is protected too: the cleaner examines its mark only after that.
	// Evidence from the recorded history: the cleaner's rename of the entry comes after the operation's
	// return step, and between the two the cleaner performed a filesystem operation on some OTHER path
	// (so its decision about this entry had not been taken when the operation returned).
	if viol == nil {
		for _, tc := range touches {
			in := infos
			if tc.isNew {
				in = newInfos
			}
			path := in[tc.idx].path
			renameStep := -1
			for _, m := range cleanOps {
				if m.Op == "rename" && m.Path == path+"=" {
					renameStep = m.Step
				}
			}
			if renameStep < 0 || renameStep <= tc.retStep {
				continue
			}
			for _, m := range cleanOps {
				if m.Step > tc.retStep && m.Step < renameStep && !strings.HasPrefix(m.Path, path) {
					fail("removed-entry-used-during-clean", fmt.Sprintf("entry %s was stored/retrieved by this process (operation returned at step %d); the cleaner then worked on %s (step %d) and only afterwards evicted that entry (step %d)", path, tc.retStep, m.Path, m.Step, renameStep), rechoices)
					break
				}
			}
		}
	}
	// (2) whatever is still there under a key path is complete
	if viol == nil {
		bubble(t, seed+1, "first", nil, func(s *verifsim.Scheduler) {
			verifsim.ResetFS()
			c2 := env.newCache()
			check := func(in *info, e *c14Entry, idx int) {
				if in.stored == nil {
					return
				}
				if _, err := os.Lstat(in.path); err != nil {
					return
				}
				tg := c14Target(e.Name, e.Tree.Outs, fmt.Sprintf("chk%d", idx))
				wipe(env.outDir(tg))
				var hit bool
				s.RunTasks([]verifsim.TaskSpec{{ID: "chk", Proc: "chk", Fn: func() { hit = c2.Retrieve(tg, e.key(), e.Tree.Outs) }}})
				got := snapTree(env.outDir(tg), e.Tree.Outs)
				if !hit || !sameSnap(got, modelTree(e.Tree)) {
					fail("partial-entry-after-clean", fmt.Sprintf("entry %s still exists after cleaning but retrieving it gives hit=%v %v, stored was %v", in.path, hit, got, modelTree(e.Tree)), rechoices)
				}
			}
			for i := range p.Entries {
				check(infos[i], &p.Entries[i], i)
			}
			for i := range p.NewOnes {
				if newInfos[i].touched {
					check(newInfos[i], &p.NewOnes[i], 100+i)
				}
			}
		})
	}
	// (3) the bound, when cleaning was certainly triggered
	if viol == nil && triggered && nUnprot > 0 && remainUnprot >= low {
		var left []string
		for _, in := range all {
			if _, err := os.Lstat(in.path); err == nil && !in.protected && !in.touched {
				left = append(left, fmt.Sprintf("%s(%d)", filepath.Base(in.path), dirSize(in.path)))
			}
		}
		sort.Strings(left)
		fail("bound-not-met", fmt.Sprintf("unprotected entries summed to >= high-water mark %d before cleaning, but afterwards %d bytes of unprotected entries remain (>= low-water mark %d): %v", high, remainUnprot, low, left), rechoices)
	}
	if removed > 0 {
		res.Stats["runs_with_eviction"]++
	}
	if triggered {
		res.Stats["triggered"]++
	}
	if len(p.Entries) >= 2 {
		res.Nontrivial = 1
		res.Sigs = append(res.Sigs, fmt.Sprintf("c14/%d/%d", seed, res.Stats["sched_steps"]))
	}
	res.Violation = viol
	return res
}

var _ = base64.URLEncoding

// ---- C14k: the cleaner itself dies --------------------------------------------------------------
//
// "never removes part of an entry": the process is killed before every filesystem operation of
// clean() in turn; afterwards whatever still exists under a key path must retrieve completely.

func scenarioC14k(t *testing.T, root string, seed uint64, replay *c14Params, tier string) vcResult {
	p := genC14(seed)
	if replay != nil {
		p = *replay
	}
	p.Ops = nil
	p.NewOnes = nil
	res := vcResult{Mode: "c14k", Seed: seed, Stats: map[string]int64{}, Params: map[string]interface{}{"compress": p.Compress, "entries": len(p.Entries)}}
	crashAt := int64(0)
	if len(p.Choices) == 1 {
		crashAt = int64(p.Choices[0]) // replay: the crash point
	}
	run := func(n int64) (ops int64, bad string) {
		env := newEnv(root, p.Compress)
		bubble(t, seed, "first", nil, func(s *verifsim.Scheduler) {
			verifsim.ResetFS()
			pre := env.newCache()
			paths := make([]string, len(p.Entries))
			for i := range p.Entries {
				e := &p.Entries[i]
				tg := c14Target(e.Name, e.Tree.Outs, "seed")
				wipe(env.outDir(tg))
				writeTree(env.outDir(tg), e.Tree)
				s.RunTasks([]verifsim.TaskSpec{{ID: "pre", Proc: "pre", Fn: func() { pre.Store(tg, e.key(), e.Tree.Outs) }}})
				paths[i] = pre.getPath(tg, e.key(), "")
				at := time.Now().Add(-time.Duration(e.AgeSec) * time.Second)
				os.Chtimes(paths[i], at, at)
			}
			c := env.newCache()
			verifsim.ResetFS()
			if n > 0 {
				verifsim.SetFaultPlan([]verifsim.Fault{{Kind: "crash", At: n}}, seed)
			}
			s.RunTasks([]verifsim.TaskSpec{{ID: "clean", Proc: "C", Fn: func() { c.clean(0, 0) }}})
			ops = verifsim.FSOps()
			verifsim.ResetFS()
			c2 := env.newCache()
			for i := range p.Entries {
				e := &p.Entries[i]
				if _, err := os.Lstat(paths[i]); err != nil {
					continue
				}
				tg := c14Target(e.Name, e.Tree.Outs, fmt.Sprintf("chk%d", i))
				wipe(env.outDir(tg))
				var hit bool
				s.RunTasks([]verifsim.TaskSpec{{ID: "chk", Proc: "chk", Fn: func() { hit = c2.Retrieve(tg, e.key(), e.Tree.Outs) }}})
				got := snapTree(env.outDir(tg), e.Tree.Outs)
				if hit && !sameSnap(got, modelTree(e.Tree)) {
					bad = fmt.Sprintf("the cleaner was killed before its FS operation %d; entry %s still exists and retrieving it reports a hit with %v, stored was %v", n, paths[i], got, modelTree(e.Tree))
				}
			}
		})
		return
	}
	points := []int64{crashAt}
	if crashAt == 0 {
		n, _ := run(0)
		res.Evals++
		points = nil
		for k := int64(1); k <= n; k++ {
			points = append(points, k)
		}
		res.Stats["clean_ops"] = n
	}
	for _, k := range points {
		_, bad := run(k)
		res.Evals++
		res.Stats["crashes_fired"]++
		res.Sigs = append(res.Sigs, fmt.Sprintf("c14k/%d/%d", seed, k))
		if bad != "" {
			q := p
			q.Choices = []int{int(k)}
			res.Violation = &vcViolation{Class: "partial-entry-after-cleaner-crash", Detail: bad, Replay: map[string]interface{}{"params": q}}
			break
		}
	}
	res.Nontrivial = len(res.Sigs)
	return res
}
