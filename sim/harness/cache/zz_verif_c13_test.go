//go:build verif

package cache

// C13: HTTP cache (against an in-memory transport with a byte-offset fault plan) and command
// cache (against generated shell scripts): a failed store leaves nothing a later retrieve reports
// as a hit with missing files; a failed retrieve is a miss.

import (
	"archive/tar"
	"bytes"
	"compress/gzip"
	"errors"
	"fmt"
	"io"
	"net/http"
	"os"
	"path/filepath"
	"sort"
	"strings"
	"sync"
	"testing"

	"github.com/thought-machine/please/src/cli"
	"github.com/thought-machine/please/src/core"
	"github.com/thought-machine/please/src/verifsim"
)

// ---- simnet: the stub HTTP cache server -----------------------------------------------------------

type netFault struct {
	Kind string `json:"kind"` // put-error-after | put-drop-response | put-503 | get-error-after | get-eof-after | get-500 | get-garbage
	At   int    `json:"at"`   // byte offset
	N    int    `json:"n"`    // how many requests it applies to (0 = 1)
}

type simnet struct {
	mu       sync.Mutex
	store    map[string][]byte
	faults   []netFault
	fired    map[string]int
	commits  [][]byte
	requests int
}

func (s *simnet) take(kinds ...string) *netFault {
	for i := range s.faults {
		f := &s.faults[i]
		for _, k := range kinds {
			if f.Kind == k && f.N >= 0 {
				if f.N == 0 {
					f.N = -1
				} else {
					f.N--
					if f.N == 0 {
						f.N = -1
					}
				}
				s.fired[f.Kind]++
				return f
			}
		}
	}
	return nil
}

type cutReader struct {
	r     io.Reader
	left  int
	clean bool
}

func (c *cutReader) Read(p []byte) (int, error) {
	if c.left <= 0 {
		if c.clean {
			return 0, io.EOF
		}
		return 0, errors.New("simnet: connection reset by peer")
	}
	if len(p) > c.left {
		p = p[:c.left]
	}
	n, err := c.r.Read(p)
	c.left -= n
	if err == io.EOF && c.left > 0 {
		return n, io.EOF
	}
	return n, err
}

func (c *cutReader) Close() error { return nil }

func (s *simnet) RoundTrip(req *http.Request) (*http.Response, error) {
	verifsim.Yield("net:" + req.Method)
	s.mu.Lock()
	defer s.mu.Unlock()
	s.requests++
	key := req.URL.Path
	resp := func(code int, body []byte) *http.Response {
		return &http.Response{StatusCode: code, Status: fmt.Sprintf("%d", code), Proto: "HTTP/1.1", ProtoMajor: 1, ProtoMinor: 1,
			Header: http.Header{}, Body: io.NopCloser(bytes.NewReader(body)), ContentLength: int64(len(body)), Request: req}
	}
	switch req.Method {
	case http.MethodPut:
		var body []byte
		if req.Body != nil {
			if f := s.take("put-error-after"); f != nil {
				io.CopyN(io.Discard, req.Body, int64(f.At))
				req.Body.Close()
				return nil, errors.New("simnet: connection reset while sending the request body")
			}
			b, err := io.ReadAll(req.Body)
			req.Body.Close()
			if err != nil {
				return nil, err
			}
			body = b
		}
		if f := s.take("put-503"); f != nil {
			return resp(503, []byte("unavailable")), nil
		}
		s.store[key] = body
		s.commits = append(s.commits, body)
		if f := s.take("put-drop-response"); f != nil {
			return nil, errors.New("simnet: connection closed before the response arrived")
		}
		return resp(200, nil), nil
	case http.MethodGet:
		if f := s.take("get-500"); f != nil {
			return resp(500, []byte("internal error")), nil
		}
		body, ok := s.store[key]
		if !ok {
			return resp(404, []byte("not found")), nil
		}
		if f := s.take("get-garbage"); f != nil {
			g := append([]byte(nil), body...)
			if len(g) > 0 {
				g[f.At%len(g)] ^= 0x5a
			}
			return resp(200, g), nil
		}
		if f := s.take("get-error-after", "get-eof-after"); f != nil {
			r := resp(200, nil)
			r.Body = &cutReader{r: bytes.NewReader(body), left: f.At, clean: f.Kind == "get-eof-after"}
			r.ContentLength = -1
			return r, nil
		}
		return resp(200, body), nil
	}
	return resp(405, nil), nil
}

// archiveNames lists the entries of a committed tar.gz body; err if it is not a complete archive.
func archiveNames(body []byte) ([]string, error) {
	gz, err := gzip.NewReader(bytes.NewReader(body))
	if err != nil {
		return nil, err
	}
	tr := tar.NewReader(gz)
	var names []string
	for {
		h, err := tr.Next()
		if err == io.EOF {
			break
		}
		if err != nil {
			return names, err
		}
		if _, err := io.Copy(io.Discard, tr); err != nil {
			return names, err
		}
		names = append(names, h.Name)
	}
	sort.Strings(names)
	return names, nil
}

// ---- scenarios ------------------------------------------------------------------------------------

type c13Params struct {
	Seed     uint64     `json:"seed"`
	Backend  string     `json:"backend"` // http | cmd
	Phase    string     `json:"phase"`   // store-read | store-net | retrieve-net | cmd-retrieve | cmd-store-read | cmd-store-fail
	Tree     vcTree     `json:"tree"`
	ReadAt   int64      `json:"read_at"`  // 0 = enumerate
	ReadErr  string     `json:"read_err"`
	Net      []netFault `json:"net"`
	CutAt    int        `json:"cut_at"`   // cmd retrieve truncation (-1 = enumerate boundaries)
	CutExit  int        `json:"cut_exit"`
}

func genC13(seed uint64) c13Params {
	r := verifsim.NewRand(verifsim.SubSeed(seed, "c13"))
	p := c13Params{Seed: seed, Tree: genTree(r, "c13"), ReadErr: []string{"EIO", "ENOENT", "EACCES"}[r.Intn(3)], CutAt: -1, CutExit: r.Intn(2)}
	p.Phase = []string{"store-read", "store-read", "store-net", "retrieve-net", "cmd-retrieve", "cmd-retrieve", "cmd-store-read", "cmd-store-fail", "mplex-retrieve"}[r.Intn(9)]
	p.Backend = "http"
	if strings.HasPrefix(p.Phase, "cmd") {
		p.Backend = "cmd"
	}
	switch p.Phase {
	case "store-net":
		k := []string{"put-error-after", "put-503", "put-drop-response"}[r.Intn(3)]
		p.Net = []netFault{{Kind: k, At: r.Intn(4000), N: 1 + r.Intn(6)}}
	case "retrieve-net", "mplex-retrieve":
		// (a flipped byte in the body is deliberately not in the plan: the property speaks of failing and
		// truncated transfers, not of corruption. Observed while building: readTar stops at the tar
		// trailer and never reads the gzip trailer, so the gzip CRC is not verified.)
		k := []string{"get-error-after", "get-eof-after", "get-500"}[r.Intn(3)]
		p.Net = []netFault{{Kind: k, At: r.Intn(6000), N: 1 + r.Intn(6)}}
	}
	return p
}

type c13Env struct {
	*vcEnv
	net    *simnet
	cmdDir string
}

func (e *c13Env) httpCache() *httpCache {
	config := core.DefaultConfiguration()
	config.Cache.HTTPURL = cli.URL("http://cache.invalid")
	config.Cache.HTTPWriteable = true
	return newHTTPCache(config)
}

func (e *c13Env) cmdCache(store, retrieve string) *cmdCache {
	config := core.DefaultConfiguration()
	config.Cache.StoreCommand = store
	config.Cache.RetrieveCommand = retrieve
	return newCmdCache(config)
}

func scenarioC13(t *testing.T, root string, seed uint64, replay *c13Params) vcResult {
	p := genC13(seed)
	if replay != nil {
		p = *replay
	}
	res := vcResult{Mode: "c13", Seed: seed, Stats: map[string]int64{}, Params: map[string]interface{}{"backend": p.Backend, "phase": p.Phase, "outs": p.Tree.Outs, "entries": len(p.Tree.Entries), "net": p.Net}}
	want := modelTree(p.Tree)
	fail := func(cls, detail string, q c13Params) {
		if res.Violation == nil {
			res.Violation = &vcViolation{Class: cls, Detail: detail, Replay: map[string]interface{}{"params": q}}
		}
	}
	// one sub-run: returns (stored-ok irrelevant) hit, snapshot, number of read ops seen, committed archive problems
	run := func(readAt int64, cutAt int) (hit bool, got []string, readOps int64, commitProblem string, archiveLen int) {
		env := &c13Env{vcEnv: newEnv(root, false), net: &simnet{store: map[string][]byte{}, fired: map[string]int{}}}
		env.cmdDir = filepath.Join(root, "cmdstore")
		must(os.MkdirAll(env.cmdDir, 0o775))
		env.net.faults = append([]netFault(nil), p.Net...)
		prevT := http.DefaultTransport
		http.DefaultTransport = env.net
		defer func() { http.DefaultTransport = prevT }()
		tA := vcTarget("co", p.Tree.Outs)
		storeFaults := p.Phase == "store-read" || p.Phase == "cmd-store-read" || p.Phase == "store-net" || p.Phase == "cmd-store-fail"
		bubble(t, p.Seed, "first", nil, func(s *verifsim.Scheduler) {
			verifsim.ResetFS()
			verifsim.ReadHooks = true
			verifsim.ReadHookFilter = "plz-out/gen/co/"
			verifsim.FreeRun = p.Backend == "cmd"
			defer func() { verifsim.ReadHooks = false; verifsim.ReadHookFilter = ""; verifsim.FreeRun = false }()
			writeTree(env.outDir(tA), p.Tree)
			atomicStore := fmt.Sprintf(`cat > "%s/$CACHE_KEY.tmp" && sleep 0.15 && mv "%s/$CACHE_KEY.tmp" "%s/$CACHE_KEY"`, env.cmdDir, env.cmdDir, env.cmdDir)
			plainRetrieve := fmt.Sprintf(`cat "%s/$CACHE_KEY"`, env.cmdDir)
			// ---- store
			if !storeFaults {
				env.net.faults = nil
			}
			if readAt > 0 && storeFaults {
				verifsim.SetFaultPlan([]verifsim.Fault{{Kind: "rerror", At: readAt, Arg: p.ReadErr}}, p.Seed)
			}
			storeCmd := atomicStore
			if p.Phase == "cmd-store-fail" {
				storeCmd = fmt.Sprintf(`head -c %d > "%s/$CACHE_KEY.tmp"; exit 1`, 700, env.cmdDir)
			}
			s.RunTasks([]verifsim.TaskSpec{{ID: "store", Proc: "S", Fn: func() {
				if p.Backend == "http" {
					env.httpCache().Store(tA, vcKey, p.Tree.Outs)
				} else {
					env.cmdCache(storeCmd, plainRetrieve).Store(tA, vcKey, p.Tree.Outs)
				}
			}}})
			readOps = verifsim.ReadOps()
			verifsim.ResetFS()
			verifsim.ReadHooks = false
			// server-side assertion: anything committed is a complete archive of the request
			for _, b := range env.net.commits {
				names, err := archiveNames(b)
				if err != nil {
					commitProblem = fmt.Sprintf("the server committed a body that is not a complete tar.gz: %v", err)
				} else if len(names) < len(p.Tree.Entries) {
					commitProblem = fmt.Sprintf("the server committed a well-formed archive with %d of %d entries: %v", len(names), len(p.Tree.Entries), names)
				}
			}
			// ---- retrieve (fault-free unless the phase is about retrieve faults)
			if p.Phase == "retrieve-net" {
				env.net.faults = append([]netFault(nil), p.Net...)
			} else {
				env.net.faults = nil
			}
			retrieveCmd := plainRetrieve
			if p.Phase == "cmd-retrieve" {
				f := filepath.Join(env.cmdDir, fmt.Sprintf("%x", vcKey))
				if fi, err := os.Stat(f); err == nil {
					archiveLen = int(fi.Size())
				}
				if cutAt >= 0 {
					retrieveCmd = fmt.Sprintf(`head -c %d "%s/$CACHE_KEY"; exit %d`, cutAt, env.cmdDir, p.CutExit)
				}
			}
			wipe(env.outDir(tA))
			s.RunTasks([]verifsim.TaskSpec{{ID: "retrieve", Proc: "R", Fn: func() {
				if p.Backend == "http" {
					hit = env.httpCache().Retrieve(tA, vcKey, p.Tree.Outs)
				} else {
					hit = env.cmdCache(atomicStore, retrieveCmd).Retrieve(tA, vcKey, p.Tree.Outs)
				}
			}}})
			got = snapTree(env.outDir(tA), p.Tree.Outs)
			for k, v := range env.net.fired {
				res.Stats["net_"+k] += int64(v)
			}
			res.Stats["http_requests"] += int64(env.net.requests)
		})
		return
	}
	check := func(label string, q c13Params, hit bool, got []string, commitProblem string, mustHit bool) {
		if commitProblem != "" {
			fail("incomplete-archive-committed", label+": "+commitProblem, q)
			return
		}
		if hit && !sameSnap(got, want) {
			fail("hit-with-missing-files", fmt.Sprintf("%s: Retrieve reported a hit but restored %v, stored tree is %v", label, got, want), q)
		}
		if mustHit && !hit {
			fail("miss-after-clean-store", fmt.Sprintf("%s: fault-free store followed by fault-free retrieve missed", label), q)
		}
	}
	switch p.Phase {
	case "mplex-retrieve":
		// dir cache in front of the HTTP cache: a faulty HTTP retrieve must not seed the dir cache with a
		// partial tree, and what the dir cache serves afterwards must be complete
		env := &c13Env{vcEnv: newEnv(root, false), net: &simnet{store: map[string][]byte{}, fired: map[string]int{}}}
		prevT := http.DefaultTransport
		http.DefaultTransport = env.net
		tA := vcTarget("co", p.Tree.Outs)
		var hit1, hit2, hit3 bool
		var got1, got2, got3 []string
		bubble(t, p.Seed, "first", nil, func(s *verifsim.Scheduler) {
			verifsim.ResetFS()
			writeTree(env.outDir(tA), p.Tree)
			mk := func() *cacheMultiplexer { return &cacheMultiplexer{caches: []core.Cache{env.newCache(), env.httpCache()}} }
			s.RunTasks([]verifsim.TaskSpec{{ID: "store", Proc: "S", Fn: func() { mk().Store(tA, vcKey, p.Tree.Outs) }}})
			os.RemoveAll(env.cacheDir) // the local cache is lost; only the server has the artifact
			env.net.faults = append([]netFault(nil), p.Net...)
			wipe(env.outDir(tA))
			s.RunTasks([]verifsim.TaskSpec{{ID: "r1", Proc: "R1", Fn: func() { hit1 = mk().Retrieve(tA, vcKey, p.Tree.Outs) }}})
			got1 = snapTree(env.outDir(tA), p.Tree.Outs)
			// now the server goes away: whatever the dir cache has must be complete
			env.net.faults = nil
			env.net.store = map[string][]byte{}
			wipe(env.outDir(tA))
			s.RunTasks([]verifsim.TaskSpec{{ID: "r2", Proc: "R2", Fn: func() { hit2 = mk().Retrieve(tA, vcKey, p.Tree.Outs) }}})
			got2 = snapTree(env.outDir(tA), p.Tree.Outs)
			_ = hit3
			_ = got3
			for k, v := range env.net.fired {
				res.Stats["net_"+k] += int64(v)
			}
		})
		http.DefaultTransport = prevT
		res.Evals += 2
		if hit1 && !sameSnap(got1, want) {
			fail("hit-with-missing-files", fmt.Sprintf("multiplexed retrieve with HTTP faults %v reported a hit but restored %v, stored tree is %v", p.Net, got1, want), p)
		}
		if hit2 && !sameSnap(got2, want) {
			fail("partial-tree-seeded-into-dir-cache", fmt.Sprintf("after a retrieve through the HTTP cache with faults %v (hit=%v), the directory cache in front of it serves %v, stored tree is %v", p.Net, hit1, got2, want), p)
		}
		res.Sigs = append(res.Sigs, fmt.Sprintf("c13/%d/mplex", seed))
	case "store-read", "cmd-store-read":
		points := []int64{p.ReadAt}
		if p.ReadAt == 0 {
			_, _, n, _, _ := run(0, -1)
			res.Evals++
			points = nil
			for k := int64(1); k <= n; k++ {
				points = append(points, k)
			}
			res.Stats["read_ops"] += n
		}
		for _, k := range points {
			hit, got, _, cp, _ := run(k, -1)
			res.Evals++
			res.Stats["read_faults_injected"]++
			q := p
			q.ReadAt = k
			check(fmt.Sprintf("%s cache store with %s on read operation %d", p.Backend, p.ReadErr, k), q, hit, got, cp, false)
			res.Sigs = append(res.Sigs, fmt.Sprintf("c13/%d/r%d", seed, k))
			if res.Violation != nil {
				break
			}
		}
	case "cmd-retrieve":
		cuts := []int{p.CutAt}
		if p.CutAt < 0 {
			_, _, _, _, alen := run(0, -1)
			res.Evals++
			cuts = []int{0, 1, 511, 512, 513}
			for c := 1024; c < alen; c += 512 {
				cuts = append(cuts, c-1, c, c+1)
			}
			cuts = append(cuts, alen-1024, alen-512, alen-1, alen)
			res.Stats["archive_len"] += int64(alen)
		}
		for _, c := range cuts {
			if c < 0 {
				continue
			}
			hit, got, _, cp, _ := run(0, c)
			res.Evals++
			res.Stats["cmd_truncations"]++
			q := p
			q.CutAt = c
			check(fmt.Sprintf("command cache retrieve truncated after %d bytes (exit %d)", c, p.CutExit), q, hit, got, cp, false)
			res.Sigs = append(res.Sigs, fmt.Sprintf("c13/%d/c%d/%d", seed, c, p.CutExit))
			if res.Violation != nil {
				break
			}
		}
	default:
		hit, got, _, cp, _ := run(0, -1)
		res.Evals++
		check(fmt.Sprintf("%s cache, phase %s, faults %v", p.Backend, p.Phase, p.Net), p, hit, got, cp, false)
		res.Sigs = append(res.Sigs, fmt.Sprintf("c13/%d/%s", seed, p.Phase))
	}
	res.Nontrivial = len(res.Sigs)
	return res
}
