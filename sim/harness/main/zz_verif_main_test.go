//go:build verif

package main

import (
	"encoding/json"
	"fmt"
	"os"
	"testing"
	"testing/synctest"
	"time"

	"github.com/thought-machine/please/src/verifsim"
)

// verifRun is the description of one simulated plz invocation (file named by $VERIF_RUN).
type verifRun struct {
	Seed        uint64           `json:"seed"`
	Policy      string           `json:"policy"`
	Choices     []int            `json:"choices"`
	Stalls      [][2]int64       `json:"stalls"`
	NumStalls   int              `json:"num_stalls"`
	Horizon     int              `json:"horizon"`
	MaxSteps    int              `json:"max_steps"`
	Args        []string         `json:"args"`
	Trace       string           `json:"trace"`
	Faults      []verifsim.Fault `json:"faults"`
	NoFSYield   bool             `json:"no_fs_yield"`
	ExtraYields bool             `json:"extra_yields"`
	Free        bool             `json:"free"` // run without the simulator (control)
	Multi       [][]string       `json:"multi"` // C31: several logical invocations (label lists)
	MultiOffsets []int           `json:"multi_offsets"`
}

func TestVerifSim(t *testing.T) {
	path := os.Getenv("VERIF_RUN")
	if path == "" {
		t.Skip("VERIF_RUN not set")
	}
	data, err := os.ReadFile(path)
	if err != nil {
		fmt.Fprintln(os.Stderr, "verifsim:", err)
		os.Exit(verifsim.ExitInternal)
	}
	var run verifRun
	if err := json.Unmarshal(data, &run); err != nil {
		fmt.Fprintln(os.Stderr, "verifsim:", err)
		os.Exit(verifsim.ExitInternal)
	}
	os.Args = append([]string{"plz"}, run.Args...)
	if run.Free {
		os.Exit(execute(initBuild(os.Args)))
	}
	var trace *os.File
	if run.Trace != "" {
		trace, err = os.OpenFile(run.Trace, os.O_WRONLY|os.O_CREATE|os.O_TRUNC, 0o644)
		if err != nil {
			fmt.Fprintln(os.Stderr, "verifsim:", err)
			os.Exit(verifsim.ExitInternal)
		}
	}
	wd, _ := os.Getwd()
	verifsim.FSRoot = wd
	verifsim.FSYield = !run.NoFSYield
	verifsim.ExtraYields = run.ExtraYields
	verifsim.SetFaultPlan(run.Faults, run.Seed)
	verifsim.SetMapSeed(verifsim.SubSeed(run.Seed, "maps"))
	cfg := verifsim.Config{
		Seed: run.Seed, Policy: run.Policy, Choices: run.Choices, Stalls: run.Stalls,
		NumStalls: run.NumStalls, Horizon: run.Horizon, MaxSteps: run.MaxSteps, Trace: trace,
		MaxSimTime: 2 * time.Hour,
	}
	if run.Choices == nil && os.Getenv("VERIF_REPLAY_EMPTY") != "" {
		cfg.Choices = []int{}
	}
	synctest.Test(t, func(t *testing.T) {
		verifsim.Enable()
		sched := verifsim.NewScheduler(cfg)
		go func() {
			defer verifsim.EnterRoot("0")()
			verifsim.Yield("start")
			var code int
			if len(run.Multi) > 0 {
				code = verifMulti(run)
			} else {
				code = execute(initBuild(os.Args))
			}
			verifsim.Tracef("S %s\n", sched.Stats())
			verifsim.Tracef("X %d returned\n", code)
			os.Exit(code)
		}()
		sched.Run()
	})
}
