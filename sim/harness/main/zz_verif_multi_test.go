//go:build verif

package main

func verifMulti(run verifRun) int { return 99 }
