//go:build verif

package main

import (
	"fmt"
	"os"
	"sync"

	"github.com/thought-machine/please/src/core"
	"github.com/thought-machine/please/src/verifsim"
)

// verifMulti runs several logical `plz build` invocations (C31) inside one bubble: flag parsing and
// configuration are done once (they are identical for all of them), then each invocation gets its
// own BuildState, graph, parser, cache object and display through Please(), exactly as a separate
// process would. What they share besides the repository on disk is noted in DESIGN (package-level
// globals of the build and core packages).
func verifMulti(run verifRun) int {
	initBuild(os.Args)
	verifsim.SharedRepoLock = true
	n := len(run.Multi)
	codes := make([]int, n)
	var wg sync.WaitGroup
	for i := range run.Multi {
		i := i
		wg.Add(1)
		tok := verifsim.Spawn()
		go func() {
			defer wg.Done()
			defer verifsim.Enter(tok)()
			verifsim.SetProc(fmt.Sprintf("inv%d", i))
			off := 0
			if i < len(run.MultiOffsets) {
				off = run.MultiOffsets[i]
			}
			for j := 0; j < off; j++ {
				verifsim.Yield("offset")
			}
			targets := core.ParseBuildLabels(run.Multi[i])
			success, state := Please(targets, config, true, false)
			codes[i] = toExitCode(success, state)
			verifsim.Tracef("M %d exit %d\n", i, codes[i])
		}()
	}
	verifsim.Yield("multi-wait")
	wg.Wait()
	worst := 0
	for _, c := range codes {
		if c != 0 {
			worst = c
		}
	}
	return worst
}
