//go:build verif

package core
