//go:build verif

package core

// Simulation harness for C27: K test tasks report coverage through the real
// BuildState.LogTestResult in a scheduler-chosen completion order.

import (
	"encoding/json"
	"fmt"
	"os"
	"sort"
	"strings"
	"testing"
	"testing/synctest"
	"time"

	"github.com/thought-machine/please/src/verifsim"
)

type vrRun struct {
	Seed   uint64          `json:"seed"`
	Start  int             `json:"start"`
	Count  int             `json:"count"`
	Out    string          `json:"out"`
	Replay json.RawMessage `json:"replay"`
}

type vrParams struct {
	Seed    uint64                `json:"seed"`
	Tests   []map[string][]uint8  `json:"tests"` // per test: file -> line states
	Dup     int                   `json:"dup"`   // index of the result that is delivered twice (-1 none)
	Labels  []int                 `json:"labels"` // test target each result belongs to (several runs of one target share a label)
	Orders  int                   `json:"orders"`
	Alias   bool                  `json:"alias,omitempty"` // per-test map IS the run's Files map, as please's coverage parsers build it
	Choices []int                 `json:"choices"`
}

type vrResult struct {
	Index     int               `json:"index"`
	Seed      uint64            `json:"seed"`
	Params    vrParams          `json:"params"`
	Evals     int               `json:"evals"`
	Distinct  []string          `json:"distinct"` // distinct completion orders observed
	Violation *vrViolation      `json:"violation,omitempty"`
	Stats     map[string]int64  `json:"stats"`
}

type vrViolation struct {
	Class  string `json:"class"`
	Detail string `json:"detail"`
}

func genVR(seed uint64) vrParams {
	r := verifsim.NewRand(verifsim.SubSeed(seed, "c27"))
	p := vrParams{Seed: seed, Dup: -1}
	k := 2 + r.Intn(5)
	files := []string{"a.go", "b.go", "pkg/c.go"}
	for i := 0; i < k; i++ {
		t := map[string][]uint8{}
		nf := 1 + r.Intn(len(files))
		for j := 0; j < nf; j++ {
			f := files[r.Intn(len(files))]
			n := r.Intn(9)
			lines := make([]uint8, n)
			for l := range lines {
				lines[l] = uint8(r.Intn(4))
			}
			t[f] = lines
		}
		p.Tests = append(p.Tests, t)
	}
	if r.Intn(2) == 0 {
		p.Dup = r.Intn(k)
	}
	// several results may be runs of the same test target (num_runs > 1, flaky retries)
	m := 1 + r.Intn(k)
	for i := 0; i < k; i++ {
		p.Labels = append(p.Labels, r.Intn(m))
	}
	p.Orders = 6
	// drawn last, so that the cases of earlier versions keep their parameters
	p.Alias = r.Intn(2) == 0
	return p
}

func vrExpected(p vrParams) map[string][]uint8 {
	exp := map[string][]uint8{}
	for _, t := range p.Tests {
		for f, lines := range t {
			cur := exp[f]
			for i, l := range lines {
				if i >= len(cur) {
					cur = append(cur, l)
				} else if l > cur[i] {
					cur[i] = l
				}
			}
			if cur == nil {
				cur = []uint8{}
			}
			exp[f] = cur
		}
	}
	return exp
}

func vrRender(m map[string][]uint8) string {
	var keys []string
	for k := range m {
		keys = append(keys, k)
	}
	sort.Strings(keys)
	var sb strings.Builder
	for _, k := range keys {
		fmt.Fprintf(&sb, "%s=%v;", k, m[k])
	}
	return sb.String()
}

func scenarioVR(t *testing.T, seed uint64, replay *vrParams) vrResult {
	p := genVR(seed)
	if replay != nil {
		p = *replay
	}
	res := vrResult{Seed: seed, Params: p, Stats: map[string]int64{}}
	want := vrRender(vrExpected(p))
	orders := map[string]bool{}
	runs := p.Orders
	if len(p.Choices) > 0 {
		runs = 1
	}
	for o := 0; o < runs && res.Violation == nil; o++ {
		var got, perTest string
		var order []string
		var choices []int
		func() {
			defer func() {
				if r := recover(); r != nil && !strings.Contains(fmt.Sprint(r), "deadlock") && !strings.Contains(fmt.Sprint(r), "blocked") {
					panic(r)
				}
			}()
			synctest.Test(t, func(t *testing.T) {
				verifsim.Enable()
				var ch []int
				if len(p.Choices) > 0 {
					ch = p.Choices
				}
				s := verifsim.NewScheduler(verifsim.Config{Seed: verifsim.SubSeed(seed, fmt.Sprintf("order%d", o)), Policy: "random", Choices: ch, MaxSteps: 100000, MaxSimTime: time.Hour, Record: true, SoftHang: true, MaxIdle: 3 * time.Second})
				state := NewDefaultBuildState()
				state.NeedCoverage = true
				var tasks []verifsim.TaskSpec
				deliver := func(i int, tag string) verifsim.TaskSpec {
					return verifsim.TaskSpec{ID: fmt.Sprintf("t%d%s", i, tag), Fn: func() {
						lab := i
						if i < len(p.Labels) {
							lab = p.Labels[i]
						}
						target := NewBuildTarget(ParseBuildLabel(fmt.Sprintf("//pkg:test%d", lab), ""))
						cov := NewTestCoverage()
						cov.Tests[target.Label] = map[string][]LineCoverage{}
						for f, lines := range p.Tests[i] {
							lc := make([]LineCoverage, len(lines))
							for j, l := range lines {
								lc[j] = LineCoverage(l)
							}
							cov.Files[f] = lc
							cov.Tests[target.Label][f] = lc
						}
						if p.Alias {
							// src/test/{go,xml,istanbul}_coverage.go: coverage.Tests[target.Label] = coverage.Files
							cov.Tests[target.Label] = cov.Files
						}
						verifsim.Yield("finish")
						order = append(order, fmt.Sprintf("%d%s", i, tag))
						state.LogTestResult(target, 1, TargetTested, &TestSuite{}, cov, nil, "Tests passed")
					}}
				}
				for i := range p.Tests {
					tasks = append(tasks, deliver(i, ""))
				}
				if p.Dup >= 0 {
					tasks = append(tasks, deliver(p.Dup, "dup"))
				}
				s.RunTasks(tasks)
				choices = s.Recorded()
				res.Stats["sched_steps"] += int64(s.Steps)
				gm := map[string][]uint8{}
				for f, lines := range state.Coverage.Files {
					ls := make([]uint8, len(lines))
					for j, l := range lines {
						ls[j] = uint8(l)
					}
					gm[f] = ls
				}
				got = vrRender(gm)
				// Per-test coverage: what is reported for a test target is what one of that target's own
				// runs reported, whatever finished before or after it (a run's report is never rewritten
				// by the aggregation of other runs).
				for label, files := range state.Coverage.Tests {
					pm := map[string][]uint8{}
					for f, lines := range files {
						ls := make([]uint8, len(lines))
						for j, l := range lines {
							ls[j] = uint8(l)
						}
						pm[f] = ls
					}
					have := vrRender(pm)
					ok := false
					var cands []string
					for i, tst := range p.Tests {
						lab := i
						if i < len(p.Labels) {
							lab = p.Labels[i]
						}
						if fmt.Sprintf("//pkg:test%d", lab) != label.String() {
							continue
						}
						in := map[string][]uint8{}
						for f, lines := range tst {
							in[f] = append([]uint8{}, lines...)
						}
						cands = append(cands, vrRender(in))
						if vrRender(in) == have {
							ok = true
						}
					}
					if !ok && perTest == "" {
						perTest = fmt.Sprintf("per-test coverage of %s is %s, which none of its runs reported (%v)", label, have, cands)
					}
				}
			})
		}()
		res.Evals++
		orders[strings.Join(order, ",")] = true
		if got != want {
			q := p
			q.Choices = choices
			res.Params = q
			res.Violation = &vrViolation{"coverage-depends-on-order", fmt.Sprintf("completion order %v gave aggregate %s, the point-wise best is %s", order, got, want)}
		} else if perTest != "" {
			q := p
			q.Choices = choices
			res.Params = q
			res.Violation = &vrViolation{"per-test-coverage-rewritten", fmt.Sprintf("completion order %v: %s", order, perTest)}
		}
	}
	for o := range orders {
		res.Distinct = append(res.Distinct, o)
	}
	sort.Strings(res.Distinct)
	return res
}

func TestVerifCore(t *testing.T) {
	path := os.Getenv("VERIF_RUN")
	if path == "" {
		t.Skip("VERIF_RUN not set")
	}
	data, err := os.ReadFile(path)
	if err != nil {
		panic(err)
	}
	var run vrRun
	if err := json.Unmarshal(data, &run); err != nil {
		panic(err)
	}
	out, err := os.OpenFile(run.Out, os.O_WRONLY|os.O_CREATE|os.O_TRUNC, 0o644)
	if err != nil {
		panic(err)
	}
	enc := json.NewEncoder(out)
	for i := run.Start; i < run.Start+run.Count; i++ {
		seed := verifsim.SubSeed(run.Seed, fmt.Sprintf("c27/%d", i))
		var rp *vrParams
		if len(run.Replay) > 0 {
			rp = &vrParams{}
			if err := json.Unmarshal(run.Replay, rp); err != nil {
				panic(err)
			}
		}
		res := scenarioVR(t, seed, rp)
		res.Index = i
		if err := enc.Encode(res); err != nil {
			panic(err)
		}
	}
	out.Close()
	os.Exit(0)
}
