//go:build verif

// Package verifsim is the deterministic-simulation runtime injected into thought-machine/please
// by /verif/tools/instr through a build overlay. It is never part of the shipped program.
//
// Model: every instrumented goroutine ("task") parks at verifsim.Yield before each
// synchronisation operation. The root goroutine of a testing/synctest bubble runs Scheduler.Run:
// wait for quiescence, pick ONE parked task from a seeded PRNG (or a replay list), release it,
// repeat. The fake clock of the bubble only moves when the scheduler sleeps.
package verifsim

import (
	"fmt"
	"os"
	"runtime"
	"sort"
	"strconv"
	"strings"
	"sync"
	"sync/atomic"
	"syscall"
	"testing/synctest"
	"time"
	"unsafe"
)

// Enabled is true while a simulation is running. When false every hook is a direct call-through.
var Enabled bool

var enabledFlag atomic.Bool

// Tok is the identity of a task; created by Spawn in the parent, adopted by Enter in the child.
type Tok struct {
	id      string
	nspawn  int
	nmap    int
	wake    chan struct{}
	site    string
	blocked unsafe.Pointer // resource the task waits for (nil: runnable)
	ver     uint64
	prio    int64
	hasPrio bool
	proc    string // simulated-process tag (in-package multi-process harnesses)
	frozen  bool
	isRoot  bool
}

// ID returns the lineage identity of the task.
func (t *Tok) ID() string { return t.id }

var (
	mu       sync.Mutex // protects everything below; never held across a park
	tasks    = map[int64]*Tok{}
	parked   = map[*Tok]bool{}
	resVer   = map[unsafe.Pointer]uint64{}
	anonSeq  = map[string]int{}
	rootTok  = &Tok{id: "0"}
	probes   = map[string]int64{}
	theSched *Scheduler
)

func goid() int64 {
	var buf [64]byte
	n := runtime.Stack(buf[:], false)
	// "goroutine 123 ["
	s := buf[10:n]
	var id int64
	for _, c := range s {
		if c < '0' || c > '9' {
			break
		}
		id = id*10 + int64(c-'0')
	}
	return id
}

func current() *Tok {
	g := goid()
	mu.Lock()
	t := tasks[g]
	mu.Unlock()
	return t
}

func adopt(site string) *Tok {
	g := goid()
	mu.Lock()
	defer mu.Unlock()
	if t := tasks[g]; t != nil {
		return t
	}
	anonSeq[site]++
	t := &Tok{id: fmt.Sprintf("anon@%s#%d", site, anonSeq[site])}
	tasks[g] = t
	return t
}

// Spawn is evaluated in the parent at a `go` statement and returns the child's identity.
func Spawn() *Tok {
	if !Enabled {
		return nil
	}
	p := current()
	if p == nil {
		p = adopt("spawn")
	}
	// nspawn is only touched by the goroutine that owns p
	n := p.nspawn
	p.nspawn++
	return &Tok{id: p.id + "." + strconv.Itoa(n), proc: p.proc}
}

// Enter adopts the identity in the child goroutine; the returned func unregisters it.
func Enter(t *Tok) func() {
	if t == nil {
		return func() {}
	}
	g := goid()
	mu.Lock()
	tasks[g] = t
	mu.Unlock()
	return func() {
		mu.Lock()
		delete(tasks, g)
		mu.Unlock()
	}
}

// EnterRoot registers the calling goroutine as the task with the given id (harness use).
func EnterRoot(id string) func() {
	return Enter(&Tok{id: id})
}

// EnterProc registers the calling goroutine as the root task of a simulated process.
func EnterProc(id, proc string) func() {
	return Enter(&Tok{id: id, proc: proc})
}

// SetProc tags the calling task (and, through Spawn, its descendants) with a simulated-process name.
func SetProc(proc string) {
	if t := current(); t != nil {
		t.proc = proc
	}
}

// CurrentID returns the id of the calling task ("" if not a task).
func CurrentID() string {
	if t := current(); t != nil {
		return t.id
	}
	return ""
}

// CurrentProc returns the simulated-process tag of the calling task.
func CurrentProc() string {
	if t := current(); t != nil {
		return t.proc
	}
	return ""
}

var rootGoid atomic.Int64

// FreeRun turns every yield into a no-op while counters, traces and fault plans keep working. Used
// where a task must feed a real subprocess that another task is waiting for (a parked feeder and
// a waiter blocked in wait4 would never reach quiescence).
var FreeRun bool

func park(t *Tok, site string, res unsafe.Pointer, ver uint64) {
	if FreeRun && res == nil {
		return
	}
	if t.isRoot {
		return // the scheduler's own goroutine never parks: instrumented calls made from it run straight through
	}
	if t.wake == nil {
		t.wake = make(chan struct{})
	}
	mu.Lock()
	t.site = site
	t.blocked = res
	t.ver = ver
	parked[t] = true
	mu.Unlock()
	<-t.wake
}

// Yield parks the calling task until the scheduler releases it.
func Yield(site string) {
	if !Enabled {
		return
	}
	t := current()
	if t == nil {
		t = adopt(site)
	}
	park(t, site, nil, 0)
}

// SharedRepoLock is set by the C31 harness: the repo lock descriptor is shared by the logical
// invocations of one process and stays held until the process exits.
var SharedRepoLock bool

// ExtraYields switches the named extra yield sites (YieldExtra) on.
var ExtraYields bool

// YieldExtra is a yield at a named function entry; off unless ExtraYields is set.
func YieldExtra(site string) {
	if !Enabled || !ExtraYields {
		return
	}
	Yield(site)
}

func resVersion(res unsafe.Pointer) uint64 {
	mu.Lock()
	v := resVer[res]
	mu.Unlock()
	return v
}

func release(res unsafe.Pointer) {
	mu.Lock()
	resVer[res]++
	mu.Unlock()
}

// yieldBlocked parks the task until resource res has been released after version ver was read.
func yieldBlocked(site string, res unsafe.Pointer, ver uint64) {
	t := current()
	if t == nil {
		t = adopt(site)
	}
	park(t, site, res, ver)
}

// Probe counts a named event (optional reach measurements only).
func Probe(name string) {
	if !Enabled {
		return
	}
	mu.Lock()
	probes[name]++
	mu.Unlock()
}

// ProbeCount returns the count of a probe.
func ProbeCount(name string) int64 {
	mu.Lock()
	defer mu.Unlock()
	return probes[name]
}

// ---------------------------------------------------------------------------------------------
// PRNG

type Rand struct{ s uint64 }

func NewRand(seed uint64) *Rand { return &Rand{seed} }

func (r *Rand) Uint64() uint64 {
	r.s += 0x9e3779b97f4a7c15
	z := r.s
	z = (z ^ (z >> 30)) * 0xbf58476d1ce4e5b9
	z = (z ^ (z >> 27)) * 0x94d049bb133111eb
	return z ^ (z >> 31)
}

func (r *Rand) Intn(n int) int {
	if n <= 1 {
		return 0
	}
	return int(r.Uint64() % uint64(n))
}

func (r *Rand) Float() float64 { return float64(r.Uint64()>>11) / float64(1<<53) }

// SubSeed derives a named sub-seed.
func SubSeed(seed uint64, name string) uint64 {
	h := uint64(14695981039346656037)
	for i := 0; i < len(name); i++ {
		h ^= uint64(name[i])
		h *= 1099511628211
	}
	r := NewRand(seed ^ h)
	return r.Uint64()
}

// ---------------------------------------------------------------------------------------------
// Scheduler

// Config configures one simulated run.
type Config struct {
	Seed       uint64
	Policy     string // random | pct | fifo | starve | first ; empty: drawn from the seed
	Choices    []int  // replay: indices into the sorted runnable list
	Stalls     [][2]int64 // replay or injected: (step, milliseconds)
	NumStalls  int    // when Stalls is nil: number of PRNG-placed stalls
	Horizon    int    // expected run length in steps, for placing stalls / PCT change points
	MaxSteps   int
	MaxSimTime time.Duration
	Trace      *os.File // unbuffered trace
	Invariant  func() error // optional online invariant, evaluated at every quiescence
	Record     bool         // keep the list of choices in memory (Recorded)
	SoftHang   bool         // on hang, set Hung and return from Run instead of exiting the process
	MaxIdle    time.Duration // simulated idle time after which a run counts as hung (default 10 min)
}

// Scheduler is the bubble root.
type Scheduler struct {
	diverged bool // lenient replay: the recorded choice list stopped fitting
	cfg      Config
	rng      *Rand
	step     int
	simStart time.Time
	last     *Tok
	starved  map[*Tok]bool
	changeAt map[int]bool
	stallAt  map[int]int64
	Done     chan struct{} // closed by the harness when the workload finished
	done     atomic.Bool
	// stats
	Steps, Choices2plus, MaxRunnable, Advances, StallsFired, BlockedParks int
	hashState uint64
	rec       []int
	selectSeed uint64
	Hung      bool
	HungWhy   string
}

// Recorded returns the choices made so far (Config.Record).
func (s *Scheduler) Recorded() []int { return append([]int(nil), s.rec...) }

// Finish tells the scheduler that the workload is over.
func (s *Scheduler) Finish() { s.done.Store(true) }

func (s *Scheduler) tracef(format string, args ...interface{}) {
	if s.cfg.Trace != nil {
		s.cfg.Trace.WriteString(fmt.Sprintf(format, args...))
	}
}

// Tracef appends a line to the run trace (harness use); never draws from the PRNG.
func Tracef(format string, args ...interface{}) {
	if theSched != nil {
		theSched.tracef(format, args...)
	}
}

// Step returns the current scheduler step (global event sequence number).
func Step() int {
	if theSched == nil {
		return 0
	}
	return theSched.step
}

// ExitCodes used by the simulator itself.
const (
	ExitHang       = 97
	ExitDivergence = 96
	ExitInternal   = 98
)

// NewScheduler prepares a scheduler; call Run from the bubble root goroutine.
func NewScheduler(cfg Config) *Scheduler {
	if cfg.MaxSteps == 0 {
		cfg.MaxSteps = 400000
	}
	if cfg.MaxSimTime == 0 {
		cfg.MaxSimTime = time.Hour
	}
	if cfg.Horizon == 0 {
		cfg.Horizon = 3000
	}
	s := &Scheduler{cfg: cfg, rng: NewRand(SubSeed(cfg.Seed, "sched")), starved: map[*Tok]bool{}, changeAt: map[int]bool{}, stallAt: map[int]int64{}}
	s.selectSeed = SubSeed(cfg.Seed, "select")
	runtime.VerifSelectSeed = s.selectSeed | 1
	prng := NewRand(SubSeed(cfg.Seed, "policy"))
	if s.cfg.Policy == "" {
		s.cfg.Policy = []string{"random", "random", "pct", "pct", "fifo", "starve"}[prng.Intn(6)]
	}
	if s.cfg.Policy == "pct" {
		d := 1 + prng.Intn(3)
		for i := 0; i < d; i++ {
			s.changeAt[prng.Intn(cfg.Horizon)] = true
		}
	}
	if cfg.Stalls != nil {
		for _, st := range cfg.Stalls {
			s.stallAt[int(st[0])] = st[1]
		}
	} else {
		for i := 0; i < cfg.NumStalls; i++ {
			s.stallAt[prng.Intn(cfg.Horizon)] = int64(5000 + prng.Intn(25000))
		}
	}
	theSched = s
	// register the calling goroutine (the bubble root) as the scheduler itself
	g := goid()
	mu.Lock()
	tasks[g] = &Tok{id: "sched", isRoot: true}
	mu.Unlock()
	return s
}

func (s *Scheduler) fail(code int, format string, args ...interface{}) {
	msg := fmt.Sprintf(format, args...)
	s.tracef("H %d %s\n", s.step, msg)
	fmt.Fprintf(os.Stderr, "verifsim: %s\n", msg)
	dumpParked()
	os.Exit(code)
}

func dumpParked() {
	mu.Lock()
	defer mu.Unlock()
	var l []string
	for t := range parked {
		b := ""
		if t.blocked != nil {
			b = " (blocked)"
		}
		l = append(l, fmt.Sprintf("  parked %s at %s%s", t.id, t.site, b))
	}
	sort.Strings(l)
	for _, x := range l {
		fmt.Fprintln(os.Stderr, x)
	}
}

// Run is the scheduling loop. It returns when Finish has been called and nothing is runnable,
// or calls os.Exit on hang/divergence.
func (s *Scheduler) Run() {
	s.simStart = time.Now()
	s.tracef("P %s\n", s.cfg.Policy)
	idle := time.Duration(0)
	for {
		synctest.Wait()
		if s.cfg.Invariant != nil {
			if err := s.cfg.Invariant(); err != nil {
				s.tracef("V %d %s\n", s.step, strings.ReplaceAll(err.Error(), "\n", " "))
			}
		}
		if ms, ok := s.stallAt[s.step]; ok && !s.done.Load() {
			delete(s.stallAt, s.step)
			s.tracef("J %d %d\n", s.step, ms)
			s.StallsFired++
			time.Sleep(time.Duration(ms) * time.Millisecond)
			continue // re-quiesce: timers may have fired
		}
		mu.Lock()
		var run []*Tok
		nblocked := 0
		for t := range parked {
			if t.frozen || (t.proc != "" && procFrozen(t.proc)) {
				continue
			}
			if t.blocked != nil && resVer[t.blocked] == t.ver {
				nblocked++
				continue
			}
			run = append(run, t)
		}
		mu.Unlock()
		if len(run) == 0 {
			if s.done.Load() {
				return
			}
			// only timers can make progress
			maxIdle := s.cfg.MaxIdle
			if maxIdle == 0 {
				maxIdle = 10 * time.Minute
			}
			if time.Since(s.simStart) > s.cfg.MaxSimTime || idle > maxIdle {
				if s.cfg.SoftHang {
					s.Hung = true
					s.HungWhy = fmt.Sprintf("no runnable task for %v simulated (blocked-parked=%d) at step %d", idle, nblocked, s.step)
					return
				}
				s.fail(ExitHang, "HANG: no runnable task for %v simulated (blocked-parked=%d) at step %d", idle, nblocked, s.step)
			}
			s.Advances++
			s.tracef("T %d 1000\n", s.step)
			time.Sleep(time.Second)
			idle += time.Second
			continue
		}
		idle = 0
		sort.Slice(run, func(i, j int) bool {
			if run[i].site != run[j].site {
				return run[i].site < run[j].site
			}
			return run[i].id < run[j].id
		})
		k := s.choose(run)
		t := run[k]
		s.tracef("C %d %d %d %s %s\n", s.step, k, len(run), t.site, t.id)
		// the choice among several ready select cases made during this step (see tools/instr: runtime overlay)
		runtime.VerifSelectSeed = (s.selectSeed + uint64(s.step)*0x9e3779b97f4a7c15) | 1
		if s.cfg.Record {
			s.rec = append(s.rec, k)
		}
		if len(run) > 1 {
			s.Choices2plus++
		}
		if len(run) > s.MaxRunnable {
			s.MaxRunnable = len(run)
		}
		s.step++
		s.Steps++
		if s.step > s.cfg.MaxSteps {
			s.fail(ExitHang, "HANG: step bound %d exceeded", s.cfg.MaxSteps)
		}
		mu.Lock()
		delete(parked, t)
		mu.Unlock()
		s.last = t
		t.wake <- struct{}{}
	}
}

func (s *Scheduler) choose(run []*Tok) int {
	n := len(run)
	if s.cfg.Choices != nil && !s.diverged {
		if s.step < len(s.cfg.Choices) {
			k := s.cfg.Choices[s.step]
			if k < n {
				return k
			}
			if os.Getenv("VERIF_LENIENT_REPLAY") == "" {
				s.fail(ExitDivergence, "DIVERGENCE: replay choice %d of %d runnable at step %d", k, n, s.step)
			}
			// The recorded choices no longer fit the code (it changed since they were recorded): follow
			// the seeded policy from here on. Still one exactly repeatable execution of this code.
			s.diverged = true
			s.tracef("D %d recorded choice %d of %d runnable: continuing with the seeded policy\n", s.step, k, n)
		} else {
			return 0
		}
	}
	if n == 1 {
		return 0
	}
	switch s.cfg.Policy {
	case "first":
		return 0
	case "fifo":
		// keep running the last task while it is runnable; pre-empt with p=0.1
		if s.rng.Float() >= 0.1 {
			for i, t := range run {
				if t == s.last {
					return i
				}
			}
			return 0
		}
		return s.rng.Intn(n)
	case "pct":
		for _, t := range run {
			if !t.hasPrio {
				t.prio = int64(s.rng.Uint64()>>2) + 1<<40
				t.hasPrio = true
			}
		}
		best := 0
		for i, t := range run {
			if t.prio > run[best].prio {
				best = i
			}
		}
		if s.changeAt[s.step] {
			run[best].prio = int64(s.step) // drop below every initial priority
			best = 0
			for i, t := range run {
				if t.prio > run[best].prio {
					best = i
				}
			}
		}
		return best
	case "starve":
		for _, t := range run {
			if !t.hasPrio {
				t.hasPrio = true
				if s.rng.Float() < 0.2 {
					s.starved[t] = true
				}
			}
		}
		var ok []int
		for i, t := range run {
			if !s.starved[t] {
				ok = append(ok, i)
			}
		}
		if len(ok) == 0 {
			return s.rng.Intn(n)
		}
		return ok[s.rng.Intn(len(ok))]
	default:
		return s.rng.Intn(n)
	}
}

// Stats renders scheduler statistics as a trace line payload.
func (s *Scheduler) Stats() string {
	mu.Lock()
	var pk []string
	for k := range probes {
		pk = append(pk, k)
	}
	sort.Strings(pk)
	var ps []string
	for _, k := range pk {
		ps = append(ps, fmt.Sprintf("%q:%d", k, probes[k]))
	}
	mu.Unlock()
	return fmt.Sprintf(`{"steps":%d,"choices2plus":%d,"max_runnable":%d,"advances":%d,"stalls":%d,"sim_ms":%d,"fsops":%d,"policy":%q,"probes":{%s}}`,
		s.Steps, s.Choices2plus, s.MaxRunnable, s.Advances, s.StallsFired, time.Since(s.simStart).Milliseconds(), FSOps(), s.cfg.Policy, strings.Join(ps, ","))
}

// KillSelf terminates the process like SIGKILL would.
func KillSelf() {
	syscall.Kill(syscall.Getpid(), syscall.SIGKILL)
	select {}
}

// Enable switches the simulation on (called by harnesses inside the bubble).
func Enable() { Enabled = true; enabledFlag.Store(true) }

// ---------------------------------------------------------------------------------------------
// Seeded map iteration

// KV is one map entry.
type KV[K comparable, V any] struct {
	K K
	V V
}

var mapSeed uint64

// SetMapSeed sets the seed from which per-task map iteration orders derive.
func SetMapSeed(s uint64) { mapSeed = s }

// MapItems returns a snapshot of the map's entries. Outside a simulation the order is the
// runtime's; inside, entries are sorted by the rendered key and then shuffled by a PRNG derived
// from (seed, task id, per-task counter), so iteration order is still arbitrary from the
// program's point of view but identical in every replay of a run.
func MapItems[M ~map[K]V, K comparable, V any](m M) []KV[K, V] {
	items := make([]KV[K, V], 0, len(m))
	for k, v := range m {
		items = append(items, KV[K, V]{k, v})
	}
	if !Enabled || len(items) < 2 {
		return items
	}
	keys := make([]string, len(items))
	for i := range items {
		keys[i] = fmt.Sprint(items[i].K)
	}
	idx := make([]int, len(items))
	for i := range idx {
		idx[i] = i
	}
	sort.Slice(idx, func(a, b int) bool { return keys[idx[a]] < keys[idx[b]] })
	t := current()
	name := "anon"
	n := 0
	if t != nil {
		name = t.id
		n = t.nmap
		t.nmap++
	}
	r := NewRand(SubSeed(mapSeed, name+"/"+strconv.Itoa(n)))
	for i := len(idx) - 1; i > 0; i-- {
		j := r.Intn(i + 1)
		idx[i], idx[j] = idx[j], idx[i]
	}
	out := make([]KV[K, V], len(items))
	for i, j := range idx {
		out[i] = items[j]
	}
	return out
}

// ---------------------------------------------------------------------------------------------
// Task groups for in-package harnesses

// TaskSpec describes a root task of a scenario.
type TaskSpec struct {
	ID   string
	Proc string // simulated-process tag ("" = none)
	Fn   func()
}

// Reset prepares the scheduler for another phase inside the same bubble.
func (s *Scheduler) Reset() { s.done.Store(false) }

// RunTasks starts the tasks, runs the scheduling loop until all of them have finished or been
// frozen by a crash fault, and returns the ids of the tasks that finished.
func (s *Scheduler) RunTasks(tasks []TaskSpec) map[string]bool {
	s.Reset()
	var remaining atomic.Int64
	remaining.Store(int64(len(tasks)))
	finished := map[string]bool{}
	var fmu sync.Mutex
	procLive := map[string]*atomic.Int64{}
	for _, t := range tasks {
		if procLive[t.Proc] == nil {
			procLive[t.Proc] = &atomic.Int64{}
		}
		procLive[t.Proc].Add(1)
	}
	prevCrash := OnCrash
	OnCrash = func(n int64) {
		// every live task of the crashing process is gone
		p := CurrentProc()
		if c := procLive[p]; c != nil {
			k := c.Swap(0)
			if remaining.Add(-k) <= 0 {
				s.Finish()
			}
		}
	}
	defer func() { OnCrash = prevCrash }()
	for _, t := range tasks {
		t := t
		go func() {
			defer EnterProc(t.ID, t.Proc)()
			Yield("start")
			t.Fn()
			fmu.Lock()
			finished[t.ID] = true
			fmu.Unlock()
			if c := procLive[t.Proc]; c != nil && c.Load() > 0 {
				c.Add(-1)
				if remaining.Add(-1) <= 0 {
					s.Finish()
				}
			}
		}()
	}
	s.Run()
	fmu.Lock()
	defer fmu.Unlock()
	r := map[string]bool{}
	for k, v := range finished {
		r[k] = v
	}
	return r
}
