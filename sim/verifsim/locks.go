//go:build verif

package verifsim

import (
	"sync"
	"sync/atomic"
	"unsafe"
)

// Mutex replaces sync.Mutex in instrumented packages. Outside a simulation it is a real mutex.
// Inside, a contended Lock parks the task with the scheduler ("blocked on this mutex") instead of
// blocking the OS thread, so quiescence detection keeps working and the scheduler decides who
// acquires the lock next.
type Mutex struct {
	real  sync.Mutex
	state atomic.Int32
}

func (m *Mutex) Lock() {
	if !Enabled {
		m.real.Lock()
		return
	}
	for {
		ver := resVersion(unsafe.Pointer(m))
		if m.state.CompareAndSwap(0, 1) {
			return
		}
		yieldBlocked("lock", unsafe.Pointer(m), ver)
	}
}

func (m *Mutex) TryLock() bool {
	if !Enabled {
		return m.real.TryLock()
	}
	return m.state.CompareAndSwap(0, 1)
}

func (m *Mutex) Unlock() {
	if !Enabled {
		m.real.Unlock()
		return
	}
	if !m.state.CompareAndSwap(1, 0) {
		panic("verifsim: unlock of unlocked Mutex")
	}
	release(unsafe.Pointer(m))
}

// RWMutex replaces sync.RWMutex.
type RWMutex struct {
	real    sync.RWMutex
	mu      sync.Mutex
	writer  bool
	readers int
}

func (m *RWMutex) Lock() {
	if !Enabled {
		m.real.Lock()
		return
	}
	for {
		ver := resVersion(unsafe.Pointer(m))
		m.mu.Lock()
		if !m.writer && m.readers == 0 {
			m.writer = true
			m.mu.Unlock()
			return
		}
		m.mu.Unlock()
		yieldBlocked("lock", unsafe.Pointer(m), ver)
	}
}

func (m *RWMutex) Unlock() {
	if !Enabled {
		m.real.Unlock()
		return
	}
	m.mu.Lock()
	if !m.writer {
		m.mu.Unlock()
		panic("verifsim: Unlock of unlocked RWMutex")
	}
	m.writer = false
	m.mu.Unlock()
	release(unsafe.Pointer(m))
}

func (m *RWMutex) RLock() {
	if !Enabled {
		m.real.RLock()
		return
	}
	for {
		ver := resVersion(unsafe.Pointer(m))
		m.mu.Lock()
		if !m.writer {
			m.readers++
			m.mu.Unlock()
			return
		}
		m.mu.Unlock()
		yieldBlocked("rlock", unsafe.Pointer(m), ver)
	}
}

func (m *RWMutex) RUnlock() {
	if !Enabled {
		m.real.RUnlock()
		return
	}
	m.mu.Lock()
	if m.readers <= 0 {
		m.mu.Unlock()
		panic("verifsim: RUnlock of unlocked RWMutex")
	}
	m.readers--
	m.mu.Unlock()
	release(unsafe.Pointer(m))
}

func (m *RWMutex) TryLock() bool {
	if !Enabled {
		return m.real.TryLock()
	}
	m.mu.Lock()
	defer m.mu.Unlock()
	if !m.writer && m.readers == 0 {
		m.writer = true
		return true
	}
	return false
}

func (m *RWMutex) TryRLock() bool {
	if !Enabled {
		return m.real.TryRLock()
	}
	m.mu.Lock()
	defer m.mu.Unlock()
	if !m.writer {
		m.readers++
		return true
	}
	return false
}

type rlocker RWMutex

func (r *rlocker) Lock()   { (*RWMutex)(r).RLock() }
func (r *rlocker) Unlock() { (*RWMutex)(r).RUnlock() }

// RLocker mirrors sync.RWMutex.RLocker.
func (m *RWMutex) RLocker() sync.Locker { return (*rlocker)(m) }

// Once replaces sync.Once.
type Once struct {
	real sync.Once
	done atomic.Bool
	m    Mutex
}

func (o *Once) Do(f func()) {
	if !Enabled {
		o.real.Do(f)
		return
	}
	if o.done.Load() {
		return
	}
	o.m.Lock()
	defer o.m.Unlock()
	if !o.done.Load() {
		defer o.done.Store(true)
		f()
	}
}
