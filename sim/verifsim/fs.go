//go:build verif

package verifsim

import (
	"errors"
	"fmt"
	"io/fs"
	"os"
	"path/filepath"
	"sort"
	"strings"
	"sync"
	"sync/atomic"
	"syscall"
	"time"
	"unsafe"

	"github.com/pkg/xattr"
)

// Fault is one entry of a fault plan over the sequence of FS operations.
type Fault struct {
	Kind string // crash | error | freeze
	At   int64  // 1-based index into the mutating-op sequence (or read-op sequence for rerror)
	Arg  string // errno name for error; torn-write fraction "0.5" for crash
}

var (
	// FSYield makes every shimmed FS operation a scheduling point.
	FSYield = true
	// ReadHooks makes shimmed reads (Open/ReadFile) counted, traced and fault-able.
	ReadHooks bool
	// FSRoot is stripped from traced paths.
	FSRoot string
	// TornRemoveAll executes RemoveAll as individual unlink/rmdir steps (each a crash point).
	TornRemoveAll = true
	// OnCrash is called for crash faults instead of killing the process (in-package harnesses).
	OnCrash func(n int64)

	fsN, rdN   atomic.Int64
	fsMu       sync.Mutex
	fsPlan     = map[int64]Fault{}
	rdPlan     = map[int64]Fault{}
	openW      []*openFile
	frozenProc = map[string]bool{}
	flockRes   byte
	faultFired = map[string]int64{}
	tornRand   *Rand
)

type openFile struct {
	path string
	f    *os.File
}

// KeepOpLog makes the shim remember "op path" of every mutating operation (OpLog).
var KeepOpLog bool
var opLog []string
var opLogMeta []OpMeta

// OpMeta is one remembered FS operation with the scheduler step at which it ran and the task that ran it.
type OpMeta struct {
	Step int
	Task string
	Op   string
	Path string
}

// OpLogMeta returns the remembered operations with their step stamps.
func OpLogMeta() []OpMeta {
	fsMu.Lock()
	defer fsMu.Unlock()
	return append([]OpMeta(nil), opLogMeta...)
}

// OpLog returns the remembered operations since the last ResetFS.
func OpLog() []string {
	fsMu.Lock()
	defer fsMu.Unlock()
	return append([]string(nil), opLog...)
}

// FSOps returns the number of mutating FS operations so far.
func FSOps() int64 { return fsN.Load() }

// ReadOps returns the number of hooked read operations so far.
func ReadOps() int64 { return rdN.Load() }

// SetFaultPlan installs the fault plan (mutating ops and read ops).
func SetFaultPlan(faults []Fault, seed uint64) {
	fsMu.Lock()
	defer fsMu.Unlock()
	fsPlan = map[int64]Fault{}
	rdPlan = map[int64]Fault{}
	for _, f := range faults {
		if strings.HasPrefix(f.Kind, "r") && f.Kind != "rerror" {
			continue
		}
		if f.Kind == "rerror" {
			rdPlan[f.At] = f
		} else {
			fsPlan[f.At] = f
		}
	}
	tornRand = NewRand(SubSeed(seed, "torn"))
}

// ResetFS resets counters (between scenarios of an in-package harness).
func ResetFS() {
	fsMu.Lock()
	defer fsMu.Unlock()
	fsN.Store(0)
	rdN.Store(0)
	fsPlan = map[int64]Fault{}
	rdPlan = map[int64]Fault{}
	openW = nil
	opLog = nil
	opLogMeta = nil
	frozenProc = map[string]bool{}
}

// FaultsFired reports how often each fault kind actually fired.
func FaultsFired() map[string]int64 {
	fsMu.Lock()
	defer fsMu.Unlock()
	r := map[string]int64{}
	for k, v := range faultFired {
		r[k] = v
	}
	return r
}

func procFrozen(proc string) bool {
	fsMu.Lock()
	defer fsMu.Unlock()
	return frozenProc[proc]
}

// FreezeProc freezes a simulated process: all its later FS operations block forever.
func FreezeProc(proc string) {
	fsMu.Lock()
	frozenProc[proc] = true
	fsMu.Unlock()
}

func relPath(p string) string {
	if FSRoot != "" {
		if r, err := filepath.Rel(FSRoot, p); err == nil && !strings.HasPrefix(r, "..") {
			return r
		}
		if !filepath.IsAbs(p) {
			return p
		}
	}
	return p
}

var errnoByName = map[string]syscall.Errno{
	"EIO": syscall.EIO, "ENOSPC": syscall.ENOSPC, "EACCES": syscall.EACCES, "ENOENT": syscall.ENOENT,
	"EXDEV": syscall.EXDEV, "EPERM": syscall.EPERM,
}

func blockForever() {
	select {}
}

// hook is called before every mutating operation. It may yield, crash, freeze or return an error.
func hook(op, path string) error {
	if !Enabled {
		return nil
	}
	proc := CurrentProc()
	if proc != "" {
		fsMu.Lock()
		fz := frozenProc[proc]
		fsMu.Unlock()
		if fz {
			blockForever()
		}
	}
	if FSYield {
		Yield("fs:" + op)
		if proc != "" {
			fsMu.Lock()
			fz := frozenProc[proc]
			fsMu.Unlock()
			if fz {
				blockForever()
			}
		}
	}
	n := fsN.Add(1)
	Tracef("F %d %s %s %s\n", n, op, relPath(path), CurrentID())
	fsMu.Lock()
	if KeepOpLog {
		opLog = append(opLog, op+" "+relPath(path))
		opLogMeta = append(opLogMeta, OpMeta{Step: Step(), Task: CurrentID(), Op: op, Path: path})
	}
	f, ok := fsPlan[n]
	if ok {
		faultFired[f.Kind]++
	}
	fsMu.Unlock()
	if !ok {
		return nil
	}
	switch f.Kind {
	case "crash", "freeze":
		if f.Arg != "notear" {
			tearOpenFiles()
		}
		Tracef("K %d crash before %s %s\n", n, op, relPath(path))
		if OnCrash != nil {
			// in-process crash of one simulated process: it never runs again
			FreezeProc(proc)
			OnCrash(n)
			blockForever()
		}
		KillSelf()
	case "error":
		e, ok := errnoByName[f.Arg]
		if !ok {
			e = syscall.EIO
		}
		Tracef("E %d %s on %s %s\n", n, f.Arg, op, relPath(path))
		return &os.PathError{Op: op, Path: path, Err: e}
	}
	return nil
}

// ReadHookFilter restricts read hooks to paths containing this substring ("" = all).
var ReadHookFilter string

func readHook(op, path string) error {
	if !Enabled || !ReadHooks {
		return nil
	}
	if ReadHookFilter != "" && !strings.Contains(path, ReadHookFilter) {
		return nil
	}
	if FSYield {
		Yield("fs:" + op)
	}
	n := rdN.Add(1)
	Tracef("R %d %s %s %s\n", n, op, relPath(path), CurrentID())
	fsMu.Lock()
	f, ok := rdPlan[n]
	if ok {
		faultFired[f.Kind]++
	}
	fsMu.Unlock()
	if ok {
		e, ok := errnoByName[f.Arg]
		if !ok {
			e = syscall.EIO
		}
		Tracef("E %d %s on %s %s\n", n, f.Arg, op, relPath(path))
		return &os.PathError{Op: op, Path: path, Err: e}
	}
	return nil
}

func track(path string, f *os.File) {
	if !Enabled || f == nil {
		return
	}
	fsMu.Lock()
	// drop closed ones now and then
	if len(openW) > 64 {
		var keep []*openFile
		for _, o := range openW {
			if _, err := o.f.Stat(); err == nil {
				keep = append(keep, o)
			}
		}
		openW = keep
	}
	openW = append(openW, &openFile{path, f})
	fsMu.Unlock()
}

// tearOpenFiles truncates every still-open written file to a PRNG-chosen prefix: the process died
// between two write(2) calls.
func tearOpenFiles() {
	fsMu.Lock()
	defer fsMu.Unlock()
	for _, o := range openW {
		fi, err := o.f.Stat()
		if err != nil {
			continue // closed
		}
		pi, err := os.Lstat(o.path)
		if err != nil || !os.SameFile(fi, pi) || !fi.Mode().IsRegular() {
			continue
		}
		size := fi.Size()
		if size == 0 || tornRand == nil {
			continue
		}
		cut := int64(tornRand.Uint64() % uint64(size+1))
		if cut < size {
			os.Truncate(o.path, cut)
			faultFired["torn_write"]++
			Tracef("W torn %s %d->%d\n", relPath(o.path), size, cut)
		}
	}
}

// ---- mutating operations --------------------------------------------------------------------

func Rename(a, b string) error {
	if err := hook("rename", b); err != nil {
		return err
	}
	return os.Rename(a, b)
}

func Remove(p string) error {
	if err := hook("remove", p); err != nil {
		return err
	}
	return os.Remove(p)
}

func RemoveAll(p string) error {
	if !Enabled || !TornRemoveAll {
		if err := hook("removeall", p); err != nil {
			return err
		}
		return os.RemoveAll(p)
	}
	fi, err := os.Lstat(p)
	if err != nil {
		if errors.Is(err, fs.ErrNotExist) || errors.Is(err, syscall.ENOTDIR) {
			return nil
		}
		return err
	}
	if !fi.IsDir() {
		if err := hook("unlink", p); err != nil {
			return err
		}
		if err := os.Remove(p); err != nil && !errors.Is(err, fs.ErrNotExist) {
			return err
		}
		return nil
	}
	ents, err := os.ReadDir(p)
	if err != nil {
		if errors.Is(err, fs.ErrNotExist) {
			return nil
		}
		return err
	}
	names := make([]string, 0, len(ents))
	for _, e := range ents {
		names = append(names, e.Name())
	}
	sort.Strings(names)
	for _, n := range names {
		if err := RemoveAll(filepath.Join(p, n)); err != nil {
			return err
		}
	}
	if err := hook("rmdir", p); err != nil {
		return err
	}
	if err := os.Remove(p); err != nil && !errors.Is(err, fs.ErrNotExist) {
		return err
	}
	return nil
}

func Mkdir(p string, m os.FileMode) error {
	if err := hook("mkdir", p); err != nil {
		return err
	}
	return os.Mkdir(p, m)
}

func MkdirAll(p string, m os.FileMode) error {
	if Enabled {
		// Only an operation if something has to be created.
		if fi, err := os.Stat(p); err == nil && fi.IsDir() {
			return nil
		}
	}
	if err := hook("mkdirall", p); err != nil {
		return err
	}
	return os.MkdirAll(p, m)
}

func MkdirTemp(dir, pattern string) (string, error) {
	if err := hook("mkdtemp", filepath.Join(dir, pattern)); err != nil {
		return "", err
	}
	return os.MkdirTemp(dir, pattern)
}

func Link(a, b string) error {
	if err := hook("link", b); err != nil {
		return err
	}
	return os.Link(a, b)
}

func Symlink(a, b string) error {
	if err := hook("symlink", b); err != nil {
		return err
	}
	return os.Symlink(a, b)
}

func Create(p string) (*os.File, error) {
	if err := hook("create", p); err != nil {
		return nil, err
	}
	f, err := os.Create(p)
	if err == nil {
		track(p, f)
	}
	return f, err
}

var tempSeq atomic.Int64

func CreateTemp(dir, pattern string) (*os.File, error) {
	if err := hook("createtemp", filepath.Join(dir, pattern)); err != nil {
		return nil, err
	}
	if Enabled {
		// deterministic temp names: same name in every replay of a run
		for {
			n := tempSeq.Add(1)
			name := pattern
			if i := strings.LastIndex(pattern, "*"); i >= 0 {
				name = pattern[:i] + fmt.Sprintf("vs%06d", n) + pattern[i+1:]
			} else {
				name = pattern + fmt.Sprintf("vs%06d", n)
			}
			d := dir
			if d == "" {
				d = os.TempDir()
			}
			p := filepath.Join(d, name)
			f, err := os.OpenFile(p, os.O_RDWR|os.O_CREATE|os.O_EXCL, 0o600)
			if os.IsExist(err) {
				continue
			}
			if err == nil {
				track(p, f)
			}
			return f, err
		}
	}
	return os.CreateTemp(dir, pattern)
}

func OpenFile(p string, flag int, m os.FileMode) (*os.File, error) {
	if flag&(os.O_WRONLY|os.O_RDWR|os.O_CREATE|os.O_TRUNC|os.O_APPEND) == 0 {
		return Open(p)
	}
	if err := hook("openw", p); err != nil {
		return nil, err
	}
	f, err := os.OpenFile(p, flag, m)
	if err == nil {
		track(p, f)
	}
	return f, err
}

func WriteFile(p string, data []byte, m os.FileMode) error {
	if err := hook("writefile", p); err != nil {
		return err
	}
	if Enabled {
		// os.WriteFile is open(O_TRUNC) + write + close: a crash can land between them.
		f, err := os.OpenFile(p, os.O_WRONLY|os.O_CREATE|os.O_TRUNC, m)
		if err != nil {
			return err
		}
		track(p, f)
		if len(data) > 0 {
			if err := hook("write", p); err != nil {
				f.Close()
				return err
			}
		}
		_, err = f.Write(data)
		if e := f.Close(); err == nil {
			err = e
		}
		return err
	}
	return os.WriteFile(p, data, m)
}

func Chmod(p string, m os.FileMode) error {
	if err := hook("chmod", p); err != nil {
		return err
	}
	return os.Chmod(p, m)
}

func Chtimes(p string, a, mt time.Time) error {
	if err := hook("chtimes", p); err != nil {
		return err
	}
	return os.Chtimes(p, a, mt)
}

func Truncate(p string, n int64) error {
	if err := hook("truncate", p); err != nil {
		return err
	}
	return os.Truncate(p, n)
}

func XattrLSet(p, name string, data []byte) error {
	if err := hook("lsetxattr", p); err != nil {
		return &xattr.Error{Op: "xattr.lset", Path: p, Name: name, Err: errUnwrap(err)}
	}
	return xattr.LSet(p, name, data)
}

func XattrSet(p, name string, data []byte) error {
	if err := hook("setxattr", p); err != nil {
		return &xattr.Error{Op: "xattr.set", Path: p, Name: name, Err: errUnwrap(err)}
	}
	return xattr.Set(p, name, data)
}

func XattrLRemove(p, name string) error {
	if err := hook("lremovexattr", p); err != nil {
		return &xattr.Error{Op: "xattr.lremove", Path: p, Name: name, Err: errUnwrap(err)}
	}
	return xattr.LRemove(p, name)
}

func XattrRemove(p, name string) error {
	if err := hook("removexattr", p); err != nil {
		return &xattr.Error{Op: "xattr.remove", Path: p, Name: name, Err: errUnwrap(err)}
	}
	return xattr.Remove(p, name)
}

func errUnwrap(err error) error {
	var pe *os.PathError
	if errors.As(err, &pe) {
		return pe.Err
	}
	return err
}

// ---- reads ------------------------------------------------------------------------------------

func Open(p string) (*os.File, error) {
	if err := readHook("open", p); err != nil {
		return nil, err
	}
	return os.Open(p)
}

func ReadFile(p string) ([]byte, error) {
	if err := readHook("readfile", p); err != nil {
		return nil, err
	}
	return os.ReadFile(p)
}

// Lstat and Readlink are only hooked when read faults are being injected (C13).
func Lstat(p string) (os.FileInfo, error) {
	if Enabled && ReadHooks {
		if err := readHook("lstat", p); err != nil {
			return nil, err
		}
	}
	return os.Lstat(p)
}

func Readlink(p string) (string, error) {
	if Enabled && ReadHooks {
		if err := readHook("readlink", p); err != nil {
			return "", err
		}
	}
	return os.Readlink(p)
}

// ---- flock ------------------------------------------------------------------------------------

// Flock replaces syscall.Flock: a blocking request becomes non-blocking attempts with the task
// parked as "blocked on flock" in between, so that the scheduler decides who gets the lock next
// and a parked lock holder cannot wedge the bubble.
func Flock(fd int, how int) error {
	if !Enabled {
		return syscall.Flock(fd, how)
	}
	if how&syscall.LOCK_UN != 0 {
		err := syscall.Flock(fd, how)
		release(unsafe.Pointer(&flockRes))
		Tracef("L %d unlock fd\n", Step())
		return err
	}
	if how&syscall.LOCK_NB != 0 {
		Yield("flock:try")
		return syscall.Flock(fd, how)
	}
	for {
		ver := resVersion(unsafe.Pointer(&flockRes))
		err := syscall.Flock(fd, how|syscall.LOCK_NB)
		if err == nil {
			return nil
		}
		if err != syscall.EWOULDBLOCK && err != syscall.EAGAIN && err != syscall.EINTR {
			return err
		}
		Probe("flock_contended")
		yieldBlocked("flock:wait", unsafe.Pointer(&flockRes), ver)
	}
}

// FlockReleased must be called when a locked descriptor is closed without LOCK_UN.
func FlockReleased() { release(unsafe.Pointer(&flockRes)) }
