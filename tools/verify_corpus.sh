#!/bin/bash
# verify_corpus.sh: every corpus entry harvested from a seeded change must fail when replayed against that change
# (in a private worktree) - the deterministic half of "which checks catch which changes".
cd /verif
for pid in $(ls corpus); do
  for f in corpus/$pid/*.json; do
    d=$(basename $f .json)
    [ -f seeded/$d/patch.diff ] || continue
    wt=/dev/shm/vc-repo-$$
    git -C /repo worktree add --detach -f $wt HEAD >/dev/null 2>&1
    if git -C $wt apply /verif/seeded/$d/patch.diff; then
      VERIF_REPO=$wt VERIF_OUT=/dev/shm/seeded-out ./verifctl replay $f > /dev/shm/vc-out.$$ 2>&1; rc=$?
      echo "$f on seeded $d: exit=$rc $(grep -c '^VIOLATION' /dev/shm/vc-out.$$) VIOLATION line(s)"
    else
      echo "$f: patch does not apply"
    fi
    git -C /repo worktree remove --force $wt >/dev/null 2>&1; rm -rf $wt
  done
done
rm -f /dev/shm/vc-out.$$
echo VERIFY-DONE
