#!/bin/bash
# harvest_seeded.sh <seeded dir> <property id>: runs the check against the seeded change with growing case counts
# until it reports a violation, then keeps the (minimised) replay file as corpus/<property>/<seeded>.json.
# The corpus is replayed first by every run of the check (see framework.run_corpus).
set -u
d=$1; pid=$2
cd /verif
mkdir -p corpus/$pid
for mult in 1 4 12; do
  rm -rf /dev/shm/seeded-out/replays/$pid
  q=$(python3 -c "import sys;sys.path.insert(0,'orch');import main;print(main.REGISTRY['$pid']['cases']['quick'])")
  out=$(VERIF_NO_CORPUS=1 VERIF_CASES=$((q*mult)) VERIF_BUDGET=$((300*mult)) tools/try_seeded.sh $d $pid 2>&1 | tail -1)
  if [ "$out" = "exit=1" ]; then
    f=$(ls -t /dev/shm/seeded-out/replays/$pid/*.json | head -1)
    cp $f corpus/$pid/$d.json
    echo "$d vs $pid: caught with ${mult}x quick cases -> corpus/$pid/$d.json"
    exit 0
  fi
  echo "$d vs $pid: $out with ${mult}x quick cases"
done
exit 1
