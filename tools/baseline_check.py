#!/usr/bin/env python3
"""Runs the repository's baseline test command (guard off) and checks that every test in
BASELINE.json's stable_pass still passes. Usage: baseline_check.py [pkg patterns...]"""
import json, subprocess, sys, os
pk = sys.argv[1:] or ["./..."]
b = json.load(open("/root/.vp/BASELINE.json"))
stable = set(b["stable_pass"])
env = dict(os.environ, GOFLAGS="-mod=mod", GOPROXY="off")
p = subprocess.run(["go", "test", "-json", "-vet=off", "-count=1", "-timeout", "25m", "-p", "6"] + pk, cwd=os.environ.get("BASELINE_REPO", "/repo"), env=env, stdout=subprocess.PIPE, stderr=subprocess.DEVNULL, text=True)
passed, failed, pkgs = set(), set(), set()
for l in p.stdout.splitlines():
    try:
        e = json.loads(l)
    except ValueError:
        continue
    if e.get("Package"):
        pkgs.add(e["Package"])
    if e.get("Test") and e.get("Action") in ("pass", "fail"):
        (passed if e["Action"] == "pass" else failed).add("%s::%s" % (e["Package"], e["Test"]))
want = set(s for s in stable if s.split("::")[0] in pkgs)
missing = sorted(want - passed)
print("packages run: %d, stable tests expected: %d, passed: %d, stable-but-not-passed: %d" % (len(pkgs), len(want), len(passed & want), len(missing)))
for m in missing:
    print("  NOT PASSED:", m, "(failed)" if m in failed else "(not run)")
# some tests rewrite tracked fixture files; put those back (never touches other paths)
subprocess.run(["git", "checkout", "--", "src/plzinit/BUILD", "src/build/test_data"], cwd=os.environ.get("BASELINE_REPO", "/repo"), stderr=subprocess.DEVNULL)
sys.exit(1 if missing else 0)
