// Command linchk checks recorded histories of the awaitable map against a sequential model with
// porcupine. Input: JSON lines as written by the cmap harness (one scenario per line).
// Output: one JSON line per scenario: {"index":..,"result":"ok|illegal|unknown","detail":".."}.
package main

import (
	"bufio"
	"encoding/json"
	"fmt"
	"os"
	"sort"
	"time"

	"github.com/anishathalye/porcupine"
)

type event struct {
	Client  int    `json:"client"`
	Kind    string `json:"kind"`
	Key     int    `json:"key"`
	Val     int    `json:"val"`
	Out     int    `json:"out"`
	OutB    bool   `json:"outb"`
	Wait    bool   `json:"wait"`
	Called  bool   `json:"called"`
	Vals    []int  `json:"vals"`
	Call    int64  `json:"call"`
	Ret     int64  `json:"ret"`
	WokenAt int64  `json:"woken_at"`
}

type scenario struct {
	Index   int `json:"index"`
	Params  struct {
		ErrMap bool `json:"errmap"`
	} `json:"params"`
	History []event `json:"history"`
}

type state struct {
	Kind int // 0 absent, 1 awaited, 2 present
	Val  int
}

type input struct {
	Kind string
	Key  int
	Val  int
}

type output struct {
	Out    int
	OutB   bool
	Wait   bool
	Called bool
}

var model = porcupine.Model{
	Partition: func(history []porcupine.Operation) [][]porcupine.Operation {
		m := map[int][]porcupine.Operation{}
		for _, op := range history {
			k := op.Input.(input).Key
			m[k] = append(m[k], op)
		}
		keys := make([]int, 0, len(m))
		for k := range m {
			keys = append(keys, k)
		}
		sort.Ints(keys)
		var out [][]porcupine.Operation
		for _, k := range keys {
			out = append(out, m[k])
		}
		return out
	},
	Init: func() interface{} { return state{} },
	Step: func(st, in, out interface{}) (bool, interface{}) {
		s := st.(state)
		i := in.(input)
		o := out.(output)
		switch i.Kind {
		case "add":
			if s.Kind != 2 {
				return o.OutB, state{2, i.Val}
			}
			return !o.OutB, s
		case "addorget":
			if s.Kind != 2 {
				return o.OutB && o.Called && o.Out == i.Val, state{2, i.Val}
			}
			return !o.OutB && !o.Called && o.Out == s.Val, s
		case "set":
			return true, state{2, i.Val}
		case "get":
			if s.Kind == 2 {
				return o.Out == s.Val, s
			}
			return o.Out == 0, state{1, 0} // a lookup of an absent key leaves a placeholder
		case "getorwait", "waitget":
			if s.Kind == 2 {
				return o.Out == s.Val && !o.Wait && !o.OutB, s
			}
			if s.Kind == 0 {
				return o.Out == 0 && o.Wait && o.OutB, state{1, 0}
			}
			return o.Out == 0 && o.Wait && !o.OutB, s
		case "contains":
			switch s.Kind {
			case 2:
				return o.OutB, s
			case 0:
				return !o.OutB, s
			}
			return true, s // a merely awaited key: the documented behaviour does not say
		}
		return false, s
	},
	Equal: func(a, b interface{}) bool { return a.(state) == b.(state) },
	DescribeOperation: func(in, out interface{}) string {
		return fmt.Sprintf("%+v -> %+v", in, out)
	},
}

type verdict struct {
	Index  int    `json:"index"`
	Result string `json:"result"`
	Detail string `json:"detail,omitempty"`
	Ops    int    `json:"ops"`
}

func main() {
	if len(os.Args) < 2 {
		fmt.Fprintln(os.Stderr, "usage: linchk histories.jsonl")
		os.Exit(2)
	}
	f, err := os.Open(os.Args[1])
	if err != nil {
		fmt.Fprintln(os.Stderr, err)
		os.Exit(2)
	}
	sc := bufio.NewScanner(f)
	sc.Buffer(make([]byte, 1<<20), 1<<26)
	enc := json.NewEncoder(os.Stdout)
	for sc.Scan() {
		var s scenario
		if err := json.Unmarshal(sc.Bytes(), &s); err != nil {
			fmt.Fprintln(os.Stderr, err)
			os.Exit(2)
		}
		v := verdict{Index: s.Index, Result: "ok"}
		if s.Params.ErrMap {
			enc.Encode(v)
			continue
		}
		var ops []porcupine.Operation
		maxStamp := int64(0)
		for _, e := range s.History {
			if e.Ret > maxStamp {
				maxStamp = e.Ret
			}
			if e.Call > maxStamp {
				maxStamp = e.Call
			}
		}
		writes := map[int]bool{}
		for _, e := range s.History {
			switch e.Kind {
			case "woken", "values":
				continue
			}
			if e.Kind == "add" || e.Kind == "set" || e.Kind == "addorget" {
				writes[e.Val] = true
			}
			ret := e.Ret
			if ret < 0 {
				// never returned (hung run): it may take effect at any later point
				ret = maxStamp + 10
			}
			ops = append(ops, porcupine.Operation{ClientId: e.Client, Input: input{e.Kind, e.Key, e.Val}, Call: e.Call, Output: output{e.Out, e.OutB, e.Wait, e.Called}, Return: ret})
		}
		v.Ops = len(ops)
		res := porcupine.CheckOperationsTimeout(model, ops, 30*time.Second)
		switch res {
		case porcupine.Illegal:
			v.Result = "illegal"
			v.Detail = "history is not linearizable with respect to the sequential awaitable-map model"
		case porcupine.Unknown:
			v.Result = "unknown"
		}
		// Values(): a regular (not atomic) read per key. Every returned value must have been written
		// by an insert invoked before Values returned.
		if v.Result == "ok" {
			for _, e := range s.History {
				if e.Kind != "values" || e.Ret < 0 {
					continue
				}
				for _, x := range e.Vals {
					ok := false
					for _, w := range s.History {
						if (w.Kind == "add" || w.Kind == "set" || w.Kind == "addorget") && w.Val == x && w.Call <= e.Ret {
							ok = true
						}
					}
					if !ok {
						v.Result = "illegal"
						v.Detail = fmt.Sprintf("Values() returned %d, which no insert invoked before its return had written", x)
					}
				}
				// a key whose only insert completed before Values was invoked and was never overwritten must be listed
				byKey := map[int][]event{}
				for _, w := range s.History {
					if w.Kind == "add" || w.Kind == "set" || w.Kind == "addorget" {
						byKey[w.Key] = append(byKey[w.Key], w)
					}
				}
				for k, ws := range byKey {
					if len(ws) != 1 || ws[0].Ret < 0 || ws[0].Ret >= e.Call {
						continue
					}
					if ws[0].Kind == "add" && !ws[0].OutB {
						continue
					}
					found := false
					for _, x := range e.Vals {
						if x == ws[0].Val {
							found = true
						}
					}
					if !found {
						v.Result = "illegal"
						v.Detail = fmt.Sprintf("Values() omitted key %d whose only insert (%d) had completed before it was invoked", k, ws[0].Val)
					}
				}
			}
		}
		enc.Encode(v)
	}
}
