package main

func main() {}
