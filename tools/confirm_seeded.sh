#!/bin/bash
# confirm_seeded.sh <id> <pkgdir> <demo file name in _seeded> <test regex>
# Confirms a seeded change in /tmp/wt-<id>: builds, existing tests pass, demo fails with / passes without.
set -u
id=$1; pkg=$2; demo=$3; re=$4
wt=/tmp/wt-$id
export GOFLAGS=-mod=mod GOPROXY=off
cd $wt || exit 2
git checkout -q -- src
git apply _seeded/patch.diff || { echo "PATCH DOES NOT APPLY"; exit 2; }
echo "== build"; go build -p 6 ./src/... || { echo "BUILD FAILED"; exit 1; }
echo "== existing tests (stable baseline list) with change"
BASELINE_REPO=$wt /verif/tools/baseline_check.py ./src/... | tail -5
echo "== demo WITH change (expect FAIL)"
cp _seeded/$demo $pkg/
go test -p 4 -vet=off -count=1 -run "$re" ./$pkg/ 2>&1 | tail -5
echo "== demo WITHOUT change (expect ok)"
git checkout -q -- src
go test -p 4 -vet=off -count=1 -run "$re" ./$pkg/ 2>&1 | tail -3
rm -f $pkg/$demo
git apply _seeded/patch.diff
git status --short | grep -v '^??'
