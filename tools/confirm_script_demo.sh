#!/bin/bash
# confirm_script_demo.sh <id> <demo script name in _seeded>: for demos that drive a plz binary (arg 1 of the demo).
set -u
id=$1; demo=$2
wt=/tmp/wt-$id
export GOFLAGS=-mod=mod GOPROXY=off
cd $wt || exit 2
git checkout -q -- src
git apply _seeded/patch.diff || { echo "PATCH DOES NOT APPLY"; exit 2; }
echo "== build with change"; go build -p 6 ./src/... && go build -p 6 -o /tmp/plz-$id-with ./src || { echo BUILD FAILED; exit 1; }
echo "== baseline with change"; BASELINE_REPO=$wt /verif/tools/baseline_check.py ./src/... | tail -4
git checkout -q -- src
echo "== build without"; go build -p 6 -o /tmp/plz-$id-without ./src
echo "== demo WITH (expect non-zero)"; bash _seeded/$demo /tmp/plz-$id-with > /tmp/demo-$id-with.out 2>&1; echo "exit=$?"; tail -6 /tmp/demo-$id-with.out
echo "== demo WITHOUT (expect 0)"; bash _seeded/$demo /tmp/plz-$id-without > /tmp/demo-$id-without.out 2>&1; echo "exit=$?"; tail -4 /tmp/demo-$id-without.out
rm -f /tmp/plz-$id-with /tmp/plz-$id-without
git apply _seeded/patch.diff
