module verif/instr

go 1.23
