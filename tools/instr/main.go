// Command instr rewrites the Go sources of thought-machine/please for deterministic simulation.
//
// It reads the CURRENT working tree under -repo, writes rewritten copies of selected packages
// into -out and emits -out/overlay.json suitable for `go build -overlay`. The overlay also adds
// the simulator runtime (package src/verifsim) and the in-package harness files from -sim.
//
// All rewrites are text splices at AST positions that never add or remove a newline inside the
// original text, so line numbers in the rewritten files equal those of the originals.
package main

import (
	"encoding/json"
	"flag"
	"fmt"
	"go/ast"
	"go/importer"
	"go/parser"
	"go/token"
	"go/types"
	"io"
	"os"
	"os/exec"
	"path/filepath"
	"sort"
	"strings"
)

const simImport = "github.com/thought-machine/please/src/verifsim"

// Modes
const (
	mYield = 1 << iota // insert yields before synchronisation statements
	mLock              // swap sync.Mutex/RWMutex/Once for simulator-aware ones
	mGo                // give spawned goroutines lineage identities
	mFS                // route mutating FS calls through the shim
	mMap               // iterate maps in a seeded, task-local order instead of the runtime's random one
)

var packages = map[string]int{
	"src":           mYield | mLock | mGo | mFS | mMap,
	"src/core":      mYield | mLock | mGo | mFS | mMap,
	"src/cmap":      mYield | mLock | mGo | mMap,
	"src/plz":       mYield | mLock | mGo | mFS | mMap,
	"src/parse":     mYield | mLock | mGo | mFS | mMap,
	"src/parse/asp": mLock | mGo | mMap,
	"src/output":    mYield | mLock | mGo | mFS | mMap,
	"src/build":     mYield | mLock | mGo | mFS | mMap,
	"src/test":      mYield | mLock | mGo | mFS | mMap,
	"src/cache":     mYield | mLock | mGo | mFS | mMap,
	"src/fs":        mYield | mLock | mGo | mFS | mMap,
	"src/clean":     mYield | mLock | mGo | mFS | mMap,
	"src/query":     mMap,
	"src/cli":       mMap,
	"src/process":   mMap,
}

// Functions that get an extra yield at the top of their body: "pkgdir:Recv.Name" or "pkgdir:Name".
// If a function is renamed the site silently lapses (coarser interleaving, never a false alarm).
var extraYieldFuncs = map[string]bool{
	"src/parse/asp:scope.interpretStatements": true,
	"src/parse/asp:scope.interpretStatement":  true,
}

// Functions that get a probe call at the top of their body. Probes only feed optional counters.
var probeFuncs = map[string]string{
	"src/core:BuildTarget.SetState":        "SetState",
	"src/core:BuildTarget.SyncUpdateState": "SyncUpdateState",
	"src/core:BuildTarget.FinishBuild":     "FinishBuild",
	"src/core:cycleDetector.Check":         "CycleCheck",
	"src/core:BuildState.checkForCycles":   "checkForCycles",
}

// Functions (without results) whose body is skipped while the named verifsim flag is set. Used only
// by the C31 harness: K logical invocations share one process and therefore the package-level
// repoLockFile; the first one to finish must not close the descriptor the others still use (real
// processes each have their own).
var skipFuncs = map[string]string{
	"src/core:ReleaseRepoLock": "SharedRepoLock",
}

var syncMethods = map[string]bool{
	"Lock": true, "RLock": true, "Do": true, "Wait": true, "Load": true, "Store": true,
	"Add": true, "Swap": true, "CompareAndSwap": true, "Done": true, "TryLock": true,
	"Go": true,
}

var osFuncs = map[string]string{
	"Rename": "Rename", "Remove": "Remove", "RemoveAll": "RemoveAll", "Mkdir": "Mkdir",
	"MkdirAll": "MkdirAll", "Link": "Link", "Symlink": "Symlink", "Create": "Create",
	"CreateTemp": "CreateTemp", "OpenFile": "OpenFile", "WriteFile": "WriteFile",
	"Chmod": "Chmod", "Chtimes": "Chtimes", "Truncate": "Truncate", "MkdirTemp": "MkdirTemp",
	"Open": "Open", "ReadFile": "ReadFile", "Lstat": "Lstat", "Readlink": "Readlink",
}

var xattrFuncs = map[string]string{"LSet": "XattrLSet", "Set": "XattrSet", "LRemove": "XattrLRemove", "Remove": "XattrRemove"}

type edit struct {
	start, end int // byte offsets; start==end for insertion
	text       string
	seq        int
}

type fileCtx struct {
	fset    *token.FileSet
	src     []byte
	edits   []edit
	rel     string // repo-relative path
	pkgDir  string
	mode    int
	imports map[string]string // local name -> path
	nGo     int
	usedSim bool
	keep    map[string]bool // package idents that might become unused
	stats   *stats
	info    *types.Info
}

type stats struct {
	Yields, Locks, Gos, FS, Extra, Probes, Files, MapRanges, ChanRanges int
	UnorderedKeys []string
	TypeErrors    []string
}

func (c *fileCtx) off(p token.Pos) int { return c.fset.Position(p).Offset }
func (c *fileCtx) line(p token.Pos) int { return c.fset.Position(p).Line }

func (c *fileCtx) insert(at token.Pos, text string) {
	o := c.off(at)
	c.edits = append(c.edits, edit{o, o, text, len(c.edits)})
	c.usedSim = true
}

func (c *fileCtx) replace(from, to token.Pos, text string) {
	c.edits = append(c.edits, edit{c.off(from), c.off(to), text, len(c.edits)})
	c.usedSim = true
}

func (c *fileCtx) site(p token.Pos) string {
	return fmt.Sprintf("%s:%d", strings.TrimPrefix(c.rel, "src/"), c.line(p))
}

// isPkg reports whether e is an identifier naming the import of the given path.
func (c *fileCtx) isPkg(e ast.Expr, path string) bool {
	id, ok := e.(*ast.Ident)
	if !ok || id.Obj != nil { // Obj != nil => resolved to a local declaration, not a package
		return false
	}
	return c.imports[id.Name] == path
}

// headerHasSync reports whether the "header" of a statement (the parts evaluated before any
// nested block runs) contains a synchronisation operation.
func (c *fileCtx) headerHasSync(s ast.Stmt) bool {
	found := false
	var visit func(n ast.Node) bool
	visit = func(n ast.Node) bool {
		if found || n == nil {
			return false
		}
		switch x := n.(type) {
		case *ast.BlockStmt, *ast.FuncLit:
			return false
		case *ast.CaseClause:
			return false
		case *ast.CommClause:
			return false
		case *ast.DeferStmt:
			// the deferred call runs at function exit; only its arguments are evaluated here
			for _, a := range x.Call.Args {
				ast.Inspect(a, visit)
			}
			return false
		case *ast.SendStmt, *ast.SelectStmt, *ast.GoStmt:
			found = true
			return false
		case *ast.UnaryExpr:
			if x.Op == token.ARROW {
				found = true
				return false
			}
		case *ast.CallExpr:
			switch f := x.Fun.(type) {
			case *ast.Ident:
				if f.Name == "close" && f.Obj == nil {
					found = true
					return false
				}
			case *ast.SelectorExpr:
				if c.isPkg(f.X, "sync/atomic") {
					found = true
					return false
				}
				if syncMethods[f.Sel.Name] {
					if id, ok := f.X.(*ast.Ident); ok && id.Obj == nil && c.imports[id.Name] != "" {
						// pkg.Func() named like a sync method (e.g. flag.Do): only sync itself counts
						if c.imports[id.Name] != "sync" {
							return true
						}
					}
					found = true
					return false
				}
				if c.mode&mFS != 0 && c.isPkg(f.X, "syscall") && f.Sel.Name == "Flock" {
					found = true
					return false
				}
			}
		}
		return true
	}
	switch x := s.(type) {
	case *ast.IfStmt:
		for cur := x; cur != nil; {
			if cur.Init != nil {
				ast.Inspect(cur.Init, visit)
			}
			ast.Inspect(cur.Cond, visit)
			if e, ok := cur.Else.(*ast.IfStmt); ok {
				cur = e
			} else {
				cur = nil
			}
		}
	case *ast.ForStmt:
		if x.Init != nil {
			ast.Inspect(x.Init, visit)
		}
		if x.Cond != nil {
			ast.Inspect(x.Cond, visit)
		}
		if x.Post != nil {
			ast.Inspect(x.Post, visit)
		}
	case *ast.RangeStmt:
		ast.Inspect(x.X, visit)
	case *ast.SwitchStmt:
		if x.Init != nil {
			ast.Inspect(x.Init, visit)
		}
		if x.Tag != nil {
			ast.Inspect(x.Tag, visit)
		}
	case *ast.TypeSwitchStmt:
		if x.Init != nil {
			ast.Inspect(x.Init, visit)
		}
		ast.Inspect(x.Assign, visit)
	case *ast.LabeledStmt:
		return c.headerHasSync(x.Stmt)
	case *ast.BlockStmt:
		return false
	default:
		ast.Inspect(s, visit)
	}
	return found
}

func (c *fileCtx) yieldText(p token.Pos) string {
	return fmt.Sprintf("verifsim.Yield(%q); ", c.site(p))
}

func (c *fileCtx) processStmtList(list []ast.Stmt) {
	for _, s := range list {
		if c.mode&mYield != 0 && c.headerHasSync(s) {
			c.insert(s.Pos(), c.yieldText(s.Pos()))
			c.stats.Yields++
		}
		inner := s
		if l, ok := s.(*ast.LabeledStmt); ok {
			inner = l.Stmt
		}
		switch x := inner.(type) {
		case *ast.GoStmt:
			if c.mode&mGo != 0 {
				c.rewriteGo(x)
			}
		case *ast.ForStmt:
			if c.mode&mYield != 0 && (x.Cond != nil && c.exprHasSync(x.Cond) || x.Post != nil && c.headerHasSync(x.Post)) {
				c.insertBodyTop(x.Body)
			}
		case *ast.RangeStmt:
			var ut types.Type
			if c.info != nil {
				if tv, ok := c.info.Types[x.X]; ok && tv.Type != nil {
					ut = tv.Type.Underlying()
				}
			}
			if _, isChan := ut.(*types.Chan); isChan || (ut == nil && x.Value == nil && rangeMaybeChan(x.X)) {
				if c.mode&mYield != 0 {
					c.insertBodyTop(x.Body)
					c.stats.ChanRanges++
				}
			}
			if mt, isMap := ut.(*types.Map); isMap && c.mode&mMap != 0 {
				c.rewriteMapRange(x, mt)
			}
		}
	}
}

// rewriteMapRange turns `for k, v := range m {` into
// `for _, _kvN := range verifsim.MapItems(m) { k, v := _kvN.K, _kvN.V;` (snapshot, seeded order).
func (c *fileCtx) rewriteMapRange(x *ast.RangeStmt, mt *types.Map) {
	if x.Key == nil && x.Value == nil {
		return // `for range m`: order is unobservable
	}
	c.stats.MapRanges++
	if !orderedKey(mt.Key()) {
		c.stats.UnorderedKeys = append(c.stats.UnorderedKeys, fmt.Sprintf("%s: %s", c.site(x.Pos()), mt.Key().String()))
	}
	c.nGo++
	kv := fmt.Sprintf("_kv%d", c.nGo)
	// header: from after `for ` up to `range`
	c.replace(x.For+3, x.Range, " _, "+kv+" := ")
	c.insert(x.X.Pos(), "verifsim.MapItems(")
	c.insert(x.X.End(), ")")
	tok := ":="
	if x.Tok == token.ASSIGN {
		tok = "="
	}
	k, v := "_", "_"
	if x.Key != nil {
		k = string(c.src[c.off(x.Key.Pos()):c.off(x.Key.End())])
	}
	if x.Value != nil {
		v = string(c.src[c.off(x.Value.Pos()):c.off(x.Value.End())])
	}
	if k == "_" && v == "_" {
		return
	}
	// the loop variables live in a scope enclosing the body (the body may redeclare them)
	if tok == ":=" && k == "_" {
		c.insert(x.Body.Lbrace+1, fmt.Sprintf(" %s := %s.V; _ = %s; {", v, kv, v))
	} else if tok == ":=" && v == "_" {
		c.insert(x.Body.Lbrace+1, fmt.Sprintf(" %s := %s.K; _ = %s; {", k, kv, k))
	} else if tok == ":=" {
		c.insert(x.Body.Lbrace+1, fmt.Sprintf(" %s, %s := %s.K, %s.V; _, _ = %s, %s; {", k, v, kv, kv, k, v))
	} else {
		c.insert(x.Body.Lbrace+1, fmt.Sprintf(" %s, %s = %s.K, %s.V; {", k, v, kv, kv))
	}
	c.insert(x.Body.Rbrace, "}")
}

// orderedKey reports whether fmt.Sprint of a key of this type is a run-independent total order.
func orderedKey(t types.Type) bool {
	switch u := t.Underlying().(type) {
	case *types.Basic:
		return u.Kind() != types.UnsafePointer && u.Kind() != types.Uintptr
	case *types.Struct:
		for i := 0; i < u.NumFields(); i++ {
			if !orderedKey(u.Field(i).Type()) {
				return false
			}
		}
		return true
	case *types.Array:
		return orderedKey(u.Elem())
	case *types.Pointer:
		// acceptable only if the pointer type has a String method (order by rendered name)
		ms := types.NewMethodSet(t)
		for i := 0; i < ms.Len(); i++ {
			if ms.At(i).Obj().Name() == "String" {
				return true
			}
		}
		return false
	case *types.Interface:
		return false
	}
	return false
}

func rangeMaybeChan(e ast.Expr) bool {
	switch e.(type) {
	case *ast.Ident, *ast.SelectorExpr, *ast.CallExpr:
		return true
	}
	return false
}

func (c *fileCtx) exprHasSync(e ast.Expr) bool {
	return c.headerHasSync(&ast.ExprStmt{X: e})
}

func (c *fileCtx) insertBodyTop(b *ast.BlockStmt) {
	if b == nil {
		return
	}
	c.insert(b.Lbrace+1, " "+c.yieldText(b.Lbrace))
	c.stats.Yields++
}

// rewriteGo gives the spawned goroutine a lineage identity.
//
//	go func(p T){B}(a)      => go func(_vt *verifsim.Tok, p T){defer verifsim.Enter(_vt)(); B}(verifsim.Spawn(), a)
//	go f(a, b)              => { _vf, _v0, _v1 := f, a, b; go func(_vt *verifsim.Tok){defer verifsim.Enter(_vt)(); _vf(_v0, _v1)}(verifsim.Spawn()) }
func (c *fileCtx) rewriteGo(g *ast.GoStmt) {
	c.stats.Gos++
	call := g.Call
	if fl, ok := call.Fun.(*ast.FuncLit); ok {
		params := fl.Type.Params
		if params.NumFields() == 0 {
			c.insert(params.Opening+1, "_vt *verifsim.Tok")
		} else {
			c.insert(params.Opening+1, "_vt *verifsim.Tok, ")
		}
		c.insert(fl.Body.Lbrace+1, "defer verifsim.Enter(_vt)(); ")
		if len(call.Args) == 0 {
			c.insert(call.Lparen+1, "verifsim.Spawn()")
		} else {
			c.insert(call.Lparen+1, "verifsim.Spawn(), ")
		}
		return
	}
	// general call: evaluate function value and arguments now, in the parent
	// Only separators are replaced so that edits nested inside F or the arguments still apply.
	c.nGo++
	names := []string{"_vf"}
	var args []string
	for i := range call.Args {
		n := fmt.Sprintf("_v%d", i)
		names = append(names, n)
		if i == len(call.Args)-1 && call.Ellipsis.IsValid() {
			n += "..."
		}
		args = append(args, n)
	}
	c.replace(g.Pos(), call.Fun.Pos(), "{ "+strings.Join(names, ", ")+" := ")
	tail := fmt.Sprintf("; go func(_vt *verifsim.Tok){ defer verifsim.Enter(_vt)(); _vf(%s) }(verifsim.Spawn()) }", strings.Join(args, ", "))
	if len(call.Args) == 0 {
		c.replace(call.Lparen, call.Rparen+1, tail+c.newlines(call.Lparen, call.Rparen+1))
		return
	}
	c.replace(call.Lparen, call.Lparen+1, ", ")
	last := call.Args[len(call.Args)-1]
	c.replace(last.End(), call.Rparen+1, tail+c.newlines(last.End(), call.Rparen+1))
}

// newlines returns as many newlines as the source has between two positions (keeps line numbers stable).
func (c *fileCtx) newlines(from, to token.Pos) string {
	return strings.Repeat("\n", strings.Count(string(c.src[c.off(from):c.off(to)]), "\n"))
}

func (c *fileCtx) funcKey(fd *ast.FuncDecl) string {
	name := fd.Name.Name
	if fd.Recv != nil && len(fd.Recv.List) == 1 {
		t := fd.Recv.List[0].Type
		if s, ok := t.(*ast.StarExpr); ok {
			t = s.X
		}
		if ix, ok := t.(*ast.IndexExpr); ok {
			t = ix.X
		}
		if ix, ok := t.(*ast.IndexListExpr); ok {
			t = ix.X
		}
		if id, ok := t.(*ast.Ident); ok {
			name = id.Name + "." + name
		}
	}
	return c.pkgDir + ":" + name
}

func processFile(fset *token.FileSet, f *ast.File, src []byte, info *types.Info, rel, pkgDir string, mode int, st *stats) ([]byte, bool, error) {
	c := &fileCtx{fset: fset, src: src, rel: rel, pkgDir: pkgDir, mode: mode, imports: map[string]string{}, keep: map[string]bool{}, stats: st, info: info}
	for _, im := range f.Imports {
		p := strings.Trim(im.Path.Value, "\"`")
		name := filepath.Base(p)
		if strings.HasPrefix(name, "v") && len(name) <= 3 { // .../v5
			name = filepath.Base(filepath.Dir(p))
		}
		if im.Name != nil {
			name = im.Name.Name
		}
		c.imports[name] = p
	}
	if c.imports["verifsim"] != "" {
		return src, false, nil
	}

	ast.Inspect(f, func(n ast.Node) bool {
		switch x := n.(type) {
		case *ast.BlockStmt:
			c.processStmtList(x.List)
		case *ast.CaseClause:
			c.processStmtList(x.Body)
		case *ast.CommClause:
			c.processStmtList(x.Body)
		case *ast.FuncDecl:
			if x.Body != nil {
				k := c.funcKey(x)
				if extraYieldFuncs[k] {
					c.insert(x.Body.Lbrace+1, fmt.Sprintf(" verifsim.YieldExtra(%q); ", c.site(x.Body.Lbrace)))
					st.Extra++
				}
				if flag, ok := skipFuncs[k]; ok && (x.Type.Results == nil || len(x.Type.Results.List) == 0) {
					c.insert(x.Body.Lbrace+1, fmt.Sprintf(" if verifsim.%s { return }; ", flag))
				}
				if p, ok := probeFuncs[k]; ok {
					c.insert(x.Body.Lbrace+1, fmt.Sprintf(" verifsim.Probe(%q); ", p))
					st.Probes++
				}
			}
		case *ast.SelectorExpr:
			if mode&mLock != 0 && c.isPkg(x.X, "sync") {
				switch x.Sel.Name {
				case "Mutex", "RWMutex", "Once":
					c.replace(x.Pos(), x.End(), "verifsim."+x.Sel.Name)
					c.keep["sync"] = true
					st.Locks++
				}
			}
		case *ast.CallExpr:
			sel, ok := x.Fun.(*ast.SelectorExpr)
			if !ok || mode&mFS == 0 {
				return true
			}
			if c.isPkg(sel.X, "os") {
				if nn, ok := osFuncs[sel.Sel.Name]; ok {
					c.replace(sel.Pos(), sel.End(), "verifsim."+nn)
					c.keep["os"] = true
					st.FS++
				}
			} else if c.isPkg(sel.X, "github.com/pkg/xattr") {
				if nn, ok := xattrFuncs[sel.Sel.Name]; ok {
					c.replace(sel.Pos(), sel.End(), "verifsim."+nn)
					c.keep["xattr"] = true
					st.FS++
				}
			} else if c.isPkg(sel.X, "syscall") && sel.Sel.Name == "Flock" {
				c.replace(sel.Pos(), sel.End(), "verifsim.Flock")
				c.keep["syscall"] = true
				st.FS++
			}
		}
		return true
	})
	if len(c.edits) == 0 {
		return src, false, nil
	}
	// import, placed right after the package clause on the same line
	o := c.off(f.Name.End())
	c.edits = append(c.edits, edit{o, o, fmt.Sprintf("; import verifsim %q", simImport), len(c.edits)})

	sort.SliceStable(c.edits, func(i, j int) bool {
		if c.edits[i].start != c.edits[j].start {
			return c.edits[i].start < c.edits[j].start
		}
		return c.edits[i].seq < c.edits[j].seq
	})
	var out []byte
	pos := 0
	for _, e := range c.edits {
		if e.start < pos {
			return nil, false, fmt.Errorf("%s: overlapping edits at offset %d (%q)", rel, e.start, e.text)
		}
		out = append(out, src[pos:e.start]...)
		out = append(out, e.text...)
		pos = e.end
	}
	out = append(out, src[pos:]...)
	// keep possibly-unused imports alive
	keepDecl := map[string]string{"sync": "sync.Locker", "os": "os.File", "xattr": "xattr.Error", "syscall": "syscall.Errno"}
	var keeps []string
	for k := range c.keep {
		keeps = append(keeps, k)
	}
	sort.Strings(keeps)
	out = append(out, "\n"...)
	for _, k := range keeps {
		// find local name for that package
		for local, p := range c.imports {
			if (k == "xattr" && p == "github.com/pkg/xattr") || p == k {
				out = append(out, fmt.Sprintf("var _ %s\n", strings.Replace(keepDecl[k], k+".", local+".", 1))...)
			}
		}
	}
	out = append(out, "var _ = verifsim.Enabled\n"...)
	st.Files++
	return out, true, nil
}

// goList returns export-data files for all dependencies and the Go files of each package dir.
func goList(repo, gobin string, dirs []string) (map[string]string, map[string][]string, error) {
	args := []string{"list", "-export", "-deps", "-f", "{{.ImportPath}}\t{{.Export}}\t{{.Dir}}\t{{range .GoFiles}}{{.}} {{end}}{{range .CgoFiles}}{{.}} {{end}}"}
	for _, d := range dirs {
		args = append(args, "./"+d)
	}
	cmd := exec.Command(gobin, args...)
	cmd.Dir = repo
	cmd.Stderr = os.Stderr
	outb, err := cmd.Output()
	if err != nil {
		return nil, nil, err
	}
	exports := map[string]string{}
	files := map[string][]string{}
	for _, line := range strings.Split(string(outb), "\n") {
		parts := strings.Split(line, "\t")
		if len(parts) < 4 {
			continue
		}
		exports[parts[0]] = parts[1]
		if rel, err := filepath.Rel(repo, parts[2]); err == nil && !strings.HasPrefix(rel, "..") {
			files[rel] = strings.Fields(parts[3])
		}
	}
	return exports, files, nil
}

func main() {
	repo := flag.String("repo", "/repo", "repository root")
	out := flag.String("out", "", "output directory")
	sim := flag.String("sim", "", "directory holding verifsim/ and harness/")
	gobin := flag.String("go", "go", "go command")
	flag.Parse()
	if *out == "" || *sim == "" {
		fmt.Fprintln(os.Stderr, "usage: instr -repo R -out O -sim S")
		os.Exit(2)
	}
	overlay := map[string]string{}
	st := &stats{}
	var dirs []string
	for d := range packages {
		dirs = append(dirs, d)
	}
	sort.Strings(dirs)
	exports, pkgFiles, err := goList(*repo, *gobin, dirs)
	if err != nil {
		fmt.Fprintf(os.Stderr, "instr: go list: %v\n", err)
		os.Exit(2)
	}
	for _, d := range dirs {
		fset := token.NewFileSet()
		var files []*ast.File
		var names []string
		srcs := map[string][]byte{}
		for _, n := range pkgFiles[d] {
			if strings.HasSuffix(n, "_test.go") {
				continue
			}
			path := filepath.Join(*repo, d, n)
			src, err := os.ReadFile(path)
			if err != nil {
				fmt.Fprintf(os.Stderr, "instr: %v\n", err)
				os.Exit(2)
			}
			f, err := parser.ParseFile(fset, path, src, parser.ParseComments)
			if err != nil {
				fmt.Fprintf(os.Stderr, "instr: %v\n", err)
				os.Exit(2)
			}
			files = append(files, f)
			names = append(names, n)
			srcs[n] = src
		}
		info := &types.Info{Types: map[ast.Expr]types.TypeAndValue{}}
		conf := types.Config{
			Importer: importer.ForCompiler(fset, "gc", func(path string) (io.ReadCloser, error) {
				e, ok := exports[path]
				if !ok || e == "" {
					return nil, fmt.Errorf("no export data for %s", path)
				}
				return os.Open(e)
			}),
			Error: func(err error) {
				st.TypeErrors = append(st.TypeErrors, err.Error())
			},
		}
		conf.Check("github.com/thought-machine/please/"+d, fset, files, info) // errors collected, best effort
		for i, f := range files {
			rel := filepath.Join(d, names[i])
			data, changed, err := processFile(fset, f, srcs[names[i]], info, rel, d, packages[d], st)
			if err != nil {
				fmt.Fprintf(os.Stderr, "instr: %s: %v\n", rel, err)
				os.Exit(2)
			}
			if !changed {
				continue
			}
			dst := filepath.Join(*out, "src_rw", rel)
			os.MkdirAll(filepath.Dir(dst), 0o755)
			if err := os.WriteFile(dst, data, 0o644); err != nil {
				fmt.Fprintln(os.Stderr, err)
				os.Exit(2)
			}
			overlay[filepath.Join(*repo, rel)] = dst
		}
	}
	// added files: runtime package
	addDir := func(srcDir, dstRel string) {
		ents, err := os.ReadDir(srcDir)
		if err != nil {
			fmt.Fprintf(os.Stderr, "instr: %v\n", err)
			os.Exit(2)
		}
		for _, e := range ents {
			if e.IsDir() || !strings.HasSuffix(e.Name(), ".go") {
				continue
			}
			overlay[filepath.Join(*repo, dstRel, e.Name())] = filepath.Join(srcDir, e.Name())
		}
	}
	addDir(filepath.Join(*sim, "verifsim"), "src/verifsim")
	// harness/<name>/ maps to a package directory given by harness/<name>/TARGET
	hdir := filepath.Join(*sim, "harness")
	if ents, err := os.ReadDir(hdir); err == nil {
		for _, e := range ents {
			if !e.IsDir() {
				continue
			}
			tgt, err := os.ReadFile(filepath.Join(hdir, e.Name(), "TARGET"))
			if err != nil {
				continue
			}
			dst := strings.TrimSpace(string(tgt))
			// The harness binary must not carry the package's own tests (some bind ports or
			// chdir in init/TestMain): replace every existing _test.go by an empty stub.
			if ents2, err := os.ReadDir(filepath.Join(*repo, dst)); err == nil {
				for _, e2 := range ents2 {
					if e2.IsDir() || !strings.HasSuffix(e2.Name(), "_test.go") {
						continue
					}
					orig := filepath.Join(*repo, dst, e2.Name())
					f, err := parser.ParseFile(token.NewFileSet(), orig, nil, parser.PackageClauseOnly)
					if err != nil {
						continue
					}
					stub := filepath.Join(*out, "stubs", dst, e2.Name())
					os.MkdirAll(filepath.Dir(stub), 0o755)
					os.WriteFile(stub, []byte("package "+f.Name.Name+"\n"), 0o644)
					overlay[orig] = stub
				}
			}
			addDir(filepath.Join(hdir, e.Name()), dst)
		}
	}
	ov, _ := json.MarshalIndent(map[string]interface{}{"Replace": overlay}, "", " ")
	if err := os.WriteFile(filepath.Join(*out, "overlay.json"), ov, 0o644); err != nil {
		fmt.Fprintln(os.Stderr, err)
		os.Exit(2)
	}
	sj, _ := json.Marshal(st)
	os.WriteFile(filepath.Join(*out, "instr_stats.json"), sj, 0o644)
	fmt.Printf("instr: %s\n", sj)
}
