#!/bin/bash
# try_seeded.sh <seeded id dir> <property id> [tier]: applies seeded/<dir>/patch.diff to a private worktree of
# /repo's HEAD, runs the check against it (VERIF_REPO) and removes the worktree. Evidence and replay files of
# such runs go to /dev/shm/seeded-out, never to /verif/evidence.
set -u
d=$1; pid=$2; tier=${3:-quick}
wt=/dev/shm/seeded-repo-$$
git -C /repo worktree add --detach -f $wt HEAD >/dev/null 2>&1 || { echo "cannot create worktree"; exit 2; }
trap 'git -C /repo worktree remove --force '$wt' >/dev/null 2>&1; rm -rf '$wt EXIT
git -C $wt apply /verif/seeded/$d/patch.diff || { echo "patch does not apply"; exit 2; }
cd /verif && VERIF_REPO=$wt VERIF_OUT=/dev/shm/seeded-out ./verifctl check $pid --tier $tier 2>&1 | grep -v "^KNOWN-FINDING" | tail -${TAILN:-8} | cut -c1-${CUTN:-600}
rc=${PIPESTATUS[0]}
echo "exit=$rc"
