#!/bin/bash
# try_seeded.sh <seeded id dir> <property id> [tier]: applies seeded/<dir>/patch.diff to /repo, runs the check, reverts.
set -u
d=$1; pid=$2; tier=${3:-quick}
cd /repo || exit 2
if ! git diff --quiet -- src; then echo "/repo has uncommitted src changes; refusing"; exit 2; fi
git apply /verif/seeded/$d/patch.diff || { echo "patch does not apply"; exit 2; }
cd /verif && ./verifctl check $pid --tier $tier 2>&1 | grep -v "^KNOWN-FINDING" | tail -${TAILN:-8} | cut -c1-${CUTN:-600}
rc=${PIPESTATUS[0]}
git -C /repo checkout -- .
echo "exit=$rc (tree reverted)"
