#!/bin/bash
# regress_seeded.sh [ids...]: every seeded change against the check(s) recorded for it in meta.json ("checks").
cd /verif
ids=${@:-$(ls seeded)}
for d in $ids; do
  [ -f seeded/$d/meta.json ] || continue
  for pid in $(python3 -c "import json;m=json.load(open('seeded/$d/meta.json'));print(' '.join(m.get('checks') or [m['property']]))"); do
    rc=$(tools/try_seeded.sh $d $pid 2>&1 | tail -1)
    echo "$d vs $pid: $rc"
  done
done
