#!/bin/bash
# sweep.sh <seed> <budget seconds per check> [ids...]: thorough tier of every (or the given) check, one after another.
# Runs against a private worktree of /repo's HEAD, so that temporary changes to /repo's working tree
# (tools/try_seeded.sh applies and reverts patches there) cannot leak into a long sweep.
seed=$1; budget=$2; shift 2
ids=${@:-C01 C02 C03 C04 C05 C07 C10 C11 C12 C13 C14 C15 C17 C27 C31 C32 C35}
wt=/dev/shm/sweep-repo-$$
git -C /repo worktree add --detach -f $wt HEAD >/dev/null 2>&1 || { echo "cannot create worktree"; exit 2; }
trap 'git -C /repo worktree remove --force '$wt' >/dev/null 2>&1; rm -rf '$wt EXIT
export VERIF_REPO=$wt
echo "sweep against $(git -C $wt rev-parse --short HEAD) in $wt"
for id in $ids; do
  echo "=== $id seed=$seed budget=$budget $(date +%T)"
  VERIF_SEED=$seed VERIF_BUDGET=$budget ./verifctl check $id --tier thorough 2>&1 | grep -v "^KNOWN-FINDING" | tail -12 | cut -c1-3000
done
echo "=== sweep done $(date +%T)"
