#!/bin/bash
# sweep.sh <seed> <budget seconds per check> [ids...]: thorough tier of every (or the given) check, one after another.
seed=$1; budget=$2; shift 2
ids=${@:-C01 C02 C03 C04 C05 C07 C10 C11 C12 C13 C14 C15 C17 C27 C31 C32 C35}
for id in $ids; do
  echo "=== $id seed=$seed budget=$budget $(date +%T)"
  VERIF_SEED=$seed VERIF_BUDGET=$budget ./verifctl check $id --tier thorough 2>&1 | grep -v "^KNOWN-FINDING" | tail -12 | cut -c1-3000
done
echo "=== sweep done $(date +%T)"
